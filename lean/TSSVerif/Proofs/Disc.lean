import TSSVerif.Model.Disc
import TSSVerif.Props.C06
import Batteries.Data.List.Perm
/-!
Invariants of the membership synchroniser (`Model/Disc.lean`): one local lemma per function of the
model, then the system-level induction. Nothing above the local lemmas unfolds a model function.
-/
set_option linter.unusedSimpArgs false
set_option linter.unusedVariables false
namespace TSSVerif.Proofs.Disc
open TSSVerif.Model TSSVerif.Model.Disc
open TSSVerif.Model.Translate (isort insSorted)
open TSSVerif.Props.C06 (isort_perm isort_sorted)

/-! ### lists -/

theorem mem_ins {x y : Id} {l : List Id} : y ∈ ins x l ↔ y = x ∨ y ∈ l := by
  unfold ins
  split
  · rename_i h
    constructor
    · intro hy; exact Or.inr hy
    · rintro (rfl | hy)
      · exact h
      · exact hy
  · simp [List.mem_append, or_comm]

theorem nodup_ins {x : Id} {l : List Id} (h : l.Nodup) : (ins x l).Nodup := by
  unfold ins
  split
  · exact h
  · rename_i hx
    rw [List.nodup_append]
    refine ⟨h, by simp, ?_⟩
    intro a ha b hb
    simp at hb
    subst hb
    intro e
    subst e
    exact hx ha

theorem mem_ownView {x k : Id} {S : List Id} : k ∈ ownView x S ↔ k = x ∨ k ∈ S := by
  unfold ownView
  rw [(isort_perm _).mem_iff]
  simp

theorem length_ownView (x : Id) (S : List Id) : (ownView x S).length = S.length + 1 := by
  unfold ownView
  rw [(isort_perm _).length_eq]
  simp

theorem ownView_sorted (x : Id) (S : List Id) : (ownView x S).Pairwise (· ≤ ·) := isort_sorted _

theorem ownView_nodup {x : Id} {S : List Id} (hS : S.Nodup) (hx : x ∉ S) : (ownView x S).Nodup :=
  (isort_perm _).nodup_iff.mpr (List.nodup_cons.mpr ⟨hx, hS⟩)

theorem ownView_ne_nil (x : Id) (S : List Id) : ownView x S ≠ [] := by
  intro h
  have := length_ownView x S
  rw [h] at this
  simp at this

/-- two own views of the same member and the same length, one over a subset of the other's peers, are equal -/
theorem ownView_eq_of_subset {x : Id} {S S' : List Id} (hS : S.Nodup) (hS' : S'.Nodup)
    (hsub : ∀ k ∈ S, k ∈ S') (hlen : (ownView x S).length = (ownView x S').length) :
    ownView x S = ownView x S' := by
  have hl : S'.length ≤ S.length := by
    rw [length_ownView, length_ownView] at hlen
    omega
  have hp : S.Perm S' := (List.subperm_of_subset hS hsub).perm_of_length_le hl
  refine List.Perm.eq_of_pairwise (le := (· ≤ ·)) ?_ (ownView_sorted x S) (ownView_sorted x S') ?_
  · intro a b _ _ h1 h2
    exact Nat.le_antisymm h1 h2
  · exact ((isort_perm _).trans (hp.cons x)).trans (isort_perm _).symm

/-! ### the per-member invariant -/

def base (s : TSt) : List Id :=
  match s.acc with
  | some _ => s.start
  | none => s.keys

/-- `v` is an own view of `x` over peers all of which lie in `B` -/
def OwnAnn (x : Id) (v : View) (B : List Id) : Prop :=
  ∃ S, v = ownView x S ∧ S.Nodup ∧ x ∉ S ∧ ∀ k ∈ S, k ∈ B

theorem OwnAnn.mono {x : Id} {v : View} {B B' : List Id} (h : OwnAnn x v B) (hB : ∀ k ∈ B, k ∈ B') :
    OwnAnn x v B' := by
  obtain ⟨S, h1, h2, h3, h4⟩ := h
  exact ⟨S, h1, h2, h3, fun k hk => hB k (h4 k hk)⟩

def Listed (s : TSt) (l : View) : Prop := s.phase = .done l ∨ ∃ n, s.phase = .query l n

/-- what holds of the list a member has settled on -/
structure Final (c : Cfg) (ann : List (Id × View)) (x : Id) (s : TSt) (l : View) : Prop where
  len : l.length = s.expected
  noacc : s.acc = none
  wit : ∃ S', l = ownView x S' ∧ S'.Nodup ∧ x ∉ S' ∧ (∀ k ∈ S', k ∈ s.keys) ∧
    (∀ v, (x, v) ∈ ann → OwnAnn x v S') ∧ (∀ k ∈ S', c.honest k = true → (k, l) ∈ ann)

structure MInv (c : Cfg) (ann : List (Id × View)) (heard : List (Id × Id)) (x : Id) (s : TSt) : Prop where
  self_eq : s.self = x
  exp_eq : s.expected = c.exp x
  keys_nodup : s.keys.Nodup
  self_notin : x ∉ s.keys
  keys_mem : ∀ k ∈ s.keys, k ∈ c.members
  keys_heard : ∀ k ∈ s.keys, (x, k) ∈ heard
  val_auth : ∀ k ∈ s.keys, c.honest k = true → (k, s.val k) ∈ ann
  acc_ok : ∀ a, s.acc = some a → (accKeys a).Nodup ∧ (∀ k ∈ accKeys a, k ∈ s.keys) ∧
    (∀ k ∈ s.start, k ∈ s.keys) ∧ (∀ kv ∈ a, c.honest kv.1 = true → kv ∈ ann) ∧ s.phase = .collect
  ann_own : ∀ v, (x, v) ∈ ann → OwnAnn x v (base s)
  fin : ∀ l, Listed s l → Final c ann x s l

theorem base_sub_keys {c : Cfg} {ann heard x s} (h : MInv c ann heard x s) : ∀ k ∈ base s, k ∈ s.keys := by
  intro k hk
  unfold base at hk
  split at hk
  · rename_i a ha
    exact (h.acc_ok a ha).2.2.1 k hk
  · exact hk

theorem mem_annOf {x : Id} {outs : List Out} {e : Id × View} (h : e ∈ annOf x outs) : e.1 = x := by
  unfold annOf at h
  rw [List.mem_filterMap] at h
  obtain ⟨o, _, ho⟩ := h
  cases o <;> simp at ho
  subst ho
  rfl

/-- the invariant of a member is untouched by other members' announcements and by new `heard` entries -/
theorem MInv.mono {c : Cfg} {ann ann' : List (Id × View)} {heard heard' : List (Id × Id)} {x : Id} {s : TSt}
    (h : MInv c ann heard x s) (ha : ∀ e ∈ ann, e ∈ ann') (hown : ∀ v, (x, v) ∈ ann' → (x, v) ∈ ann)
    (hh : ∀ e ∈ heard, e ∈ heard') : MInv c ann' heard' x s where
  self_eq := h.self_eq
  exp_eq := h.exp_eq
  keys_nodup := h.keys_nodup
  self_notin := h.self_notin
  keys_mem := h.keys_mem
  keys_heard := fun k hk => hh _ (h.keys_heard k hk)
  val_auth := fun k hk hk' => ha _ (h.val_auth k hk hk')
  acc_ok := fun a hacc => by
    obtain ⟨h1, h2, h3, h4, h5⟩ := h.acc_ok a hacc
    exact ⟨h1, h2, h3, fun kv hkv hk => ha _ (h4 kv hkv hk), h5⟩
  ann_own := fun v hv => h.ann_own v (hown v hv)
  fin := fun l hl => by
    obtain ⟨f1, f2, S', g1, g2, g3, g4, g5, g6⟩ := h.fin l hl
    exact ⟨f1, f2, S', g1, g2, g3, g4, fun v hv => g5 v (hown v hv), fun k hk hk' => ha _ (g6 k hk hk')⟩

theorem MInv.congr {c : Cfg} {ann heard x} {s s' : TSt} (h : MInv c ann heard x s)
    (e1 : s'.self = s.self) (e2 : s'.expected = s.expected) (e3 : s'.keys = s.keys) (e4 : s'.val = s.val)
    (e5 : s'.acc = s.acc) (e6 : s'.start = s.start) (e7 : s'.phase = s.phase) : MInv c ann heard x s' where
  self_eq := by rw [e1]; exact h.self_eq
  exp_eq := by rw [e2]; exact h.exp_eq
  keys_nodup := by rw [e3]; exact h.keys_nodup
  self_notin := by rw [e3]; exact h.self_notin
  keys_mem := by rw [e3]; exact h.keys_mem
  keys_heard := by rw [e3]; exact h.keys_heard
  val_auth := by rw [e3, e4]; exact h.val_auth
  acc_ok := by rw [e3, e5, e6, e7]; exact h.acc_ok
  ann_own := by
    have : base s' = base s := by unfold base; rw [e3, e5, e6]
    rw [this]; exact h.ann_own
  fin := by
    intro l hl
    have hl' : Listed s l := by unfold Listed at hl ⊢; rw [e7] at hl; exact hl
    obtain ⟨f1, f2, S', g1, g2, g3, g4, g5, g6⟩ := h.fin l hl'
    exact ⟨by rw [e2]; exact f1, by rw [e5]; exact f2, S', g1, g2, g3, by rw [e3]; exact g4, g5, g6⟩

/-! ### one lemma per model function -/

theorem minv_fresh (c : Cfg) (ann : List (Id × View)) (heard : List (Id × Id)) (x : Id)
    (hno : ∀ v, (x, v) ∉ ann) : MInv c ann heard x (TSt.fresh c x) where
  self_eq := rfl
  exp_eq := rfl
  keys_nodup := List.nodup_nil
  self_notin := by simp [TSt.fresh]
  keys_mem := by simp [TSt.fresh]
  keys_heard := by simp [TSt.fresh]
  val_auth := by simp [TSt.fresh]
  acc_ok := by simp [TSt.fresh]
  ann_own := fun v hv => absurd hv (hno v)
  fin := fun l hl => by
    rcases hl with h | ⟨n, h⟩ <;> simp [TSt.fresh] at h

theorem minv_store {c : Cfg} {ann heard heard' x s} (h : MInv c ann heard x s) {src : Id} {v : View}
    (hsrc : src ∈ c.members) (hne : src ≠ x) (hauth : c.honest src = true → (src, v) ∈ ann)
    (hh : ∀ e ∈ heard, e ∈ heard') (hnew : (x, src) ∈ heard') : MInv c ann heard' x (s.store src v) where
  self_eq := h.self_eq
  exp_eq := h.exp_eq
  keys_nodup := nodup_ins h.keys_nodup
  self_notin := by
    show x ∉ ins src s.keys
    rw [mem_ins]
    rintro (e | e)
    · exact hne e.symm
    · exact h.self_notin e
  keys_mem := by
    intro k hk
    rcases mem_ins.mp hk with rfl | hk
    · exact hsrc
    · exact h.keys_mem k hk
  keys_heard := by
    intro k hk
    rcases mem_ins.mp hk with rfl | hk
    · exact hnew
    · exact hh _ (h.keys_heard k hk)
  val_auth := by
    intro k hk hon
    show (k, if k = src then v else s.val k) ∈ ann
    by_cases e : k = src
    · rw [if_pos e]; subst e; exact hauth hon
    · rw [if_neg e]
      rcases mem_ins.mp hk with rfl | hk
      · exact absurd rfl e
      · exact h.val_auth k hk hon
  acc_ok := by
    intro a ha
    obtain ⟨h1, h2, h3, h4, h5⟩ := h.acc_ok a ha
    exact ⟨h1, fun k hk => mem_ins.mpr (Or.inr (h2 k hk)), fun k hk => mem_ins.mpr (Or.inr (h3 k hk)), h4, h5⟩
  ann_own := by
    intro v' hv'
    have := h.ann_own v' hv'
    refine this.mono ?_
    intro k hk
    have hk' : k ∈ (match s.acc with | some _ => s.start | none => s.keys) := hk
    show k ∈ (match s.acc with | some _ => s.start | none => ins src s.keys)
    cases hacc : s.acc with
    | some a => rw [hacc] at hk'; exact hk'
    | none => rw [hacc] at hk'; exact mem_ins.mpr (Or.inr hk')
  fin := by
    intro l hl
    obtain ⟨f1, f2, S', g1, g2, g3, g4, g5, g6⟩ := h.fin l hl
    exact ⟨f1, f2, S', g1, g2, g3, fun k hk => mem_ins.mpr (Or.inr (g4 k hk)), g5, g6⟩

theorem minv_handle {c : Cfg} {ann heard heard' x s} (h : MInv c ann heard x s) {src : Id} {k : Kind} {v : View}
    (hsrc : src ∈ c.members) (hne : src ≠ x)
    (hauth : c.honest src = true → k ≠ .response → (src, v) ∈ ann)
    (hh : ∀ e ∈ heard, e ∈ heard') (hnew : k ≠ .response → (x, src) ∈ heard') :
    MInv c ann heard' x (s.handle src k v).1 ∧ annOf x (s.handle src k v).2 = [] := by
  cases k with
  | membership =>
    exact ⟨minv_store h hsrc hne (fun hon => hauth hon (by intro e; cases e)) hh (hnew (by intro e; cases e)), rfl⟩
  | query =>
    exact ⟨minv_store h hsrc hne (fun hon => hauth hon (by intro e; cases e)) hh (hnew (by intro e; cases e)), rfl⟩
  | response =>
    have hm := h.mono (fun e he => he) (fun v hv => hv) hh
    unfold TSt.handle
    simp only
    split
    · exact ⟨hm, rfl⟩
    · split
      · exact ⟨hm.congr rfl rfl rfl rfl rfl rfl rfl, rfl⟩
      · exact ⟨hm.congr rfl rfl rfl rfl rfl rfl rfl, rfl⟩

theorem not_listed_of_collect {s : TSt} (h : s.phase = .collect) (l : View) : ¬ Listed s l := by
  rintro (e | ⟨n, e⟩) <;> rw [h] at e <;> cases e

theorem minv_begin {c : Cfg} {ann heard x s} (h : MInv c ann heard x s) : MInv c ann heard x s.beginRead := by
  unfold TSt.beginRead
  split
  · rename_i hp ha
    refine ⟨h.self_eq, h.exp_eq, h.keys_nodup, h.self_notin, h.keys_mem, h.keys_heard, h.val_auth, ?_, ?_, ?_⟩
    · intro a hacc
      have : a = [] := by
        have : (some [] : Option (List (Id × View))) = some a := hacc
        exact (Option.some.inj this).symm
      subst this
      exact ⟨by simp [accKeys], by simp [accKeys], fun k hk => hk, by simp, hp⟩
    · intro v hv
      have := h.ann_own v hv
      have hb : base s = s.keys := by unfold base; rw [ha]
      rw [hb] at this
      exact this
    · intro l hl
      exact absurd hl (not_listed_of_collect hp l)
  · exact h

theorem minv_visit {c : Cfg} {ann heard x s} (h : MInv c ann heard x s) (k : Id) : MInv c ann heard x (s.visit k) := by
  unfold TSt.visit
  split
  · rename_i a ha
    split
    · rename_i hk
      obtain ⟨h1, h2, h3, h4, h5⟩ := h.acc_ok a ha
      refine ⟨h.self_eq, h.exp_eq, h.keys_nodup, h.self_notin, h.keys_mem, h.keys_heard, h.val_auth, ?_, ?_, ?_⟩
      · intro a' hacc
        have : a' = a ++ [(k, s.val k)] := (Option.some.inj hacc).symm
        subst this
        refine ⟨?_, ?_, h3, ?_, h5⟩
        · simp only [accKeys, List.map_append, List.map_cons, List.map_nil]
          rw [List.nodup_append]
          refine ⟨h1, by simp, ?_⟩
          intro u hu w hw
          simp at hw
          subst hw
          intro e
          subst e
          exact hk.2 hu
        · intro u hu
          simp only [accKeys, List.map_append, List.map_cons, List.map_nil, List.mem_append, List.mem_singleton] at hu
          rcases hu with hu | rfl
          · exact h2 u hu
          · exact hk.1
        · intro kv hkv hon
          simp only [List.mem_append, List.mem_singleton] at hkv
          rcases hkv with hkv | rfl
          · exact h4 kv hkv hon
          · exact h.val_auth k hk.1 hon
      · intro v hv
        have := h.ann_own v hv
        have hb : base s = s.start := by unfold base; rw [ha]
        rw [hb] at this
        exact this
      · intro l hl
        exact absurd hl (not_listed_of_collect h5 l)
    · exact h
  · exact h

theorem covered_spec {s : TSt} {a : List (Id × View)} (h : covered s a = true) : ∀ k ∈ s.start, k ∈ accKeys a := by
  unfold covered at h
  rw [List.all_eq_true] at h
  intro k hk
  simpa using h k hk

theorem intersect_spec {self : Id} {a : List (Id × View)} :
    (intersect self a = ownView self (accKeys a) ∧ ∀ kv ∈ a, kv.2 = ownView self (accKeys a)) ∨ intersect self a = [] := by
  unfold intersect
  simp only
  split
  · rename_i h
    left
    refine ⟨rfl, ?_⟩
    rw [List.all_eq_true] at h
    intro kv hkv
    simpa using h kv hkv
  · right; rfl

theorem minv_finishI {c : Cfg} {ann heard x s} (h : MInv c ann heard x s) (hpos : 1 ≤ c.exp x) :
    MInv c (ann ++ annOf x s.finishIntersect.2) heard x s.finishIntersect.1 := by
  unfold TSt.finishIntersect
  split
  · simpa [annOf] using h
  · rename_i a ha
    obtain ⟨h1, h2, h3, h4, h5⟩ := h.acc_ok a ha
    split
    · simpa [annOf] using h
    · rename_i hcov
      have hcov' : ∀ k ∈ s.start, k ∈ accKeys a := covered_spec (by simpa using hcov)
      have hb : base s = s.start := by unfold base; rw [ha]
      -- the state with the pass closed and nothing else changed
      have hclosed : ∀ (ph : Phase), ph = .collect ∨ ph = .failed →
          MInv c ann heard x { s with acc := none, phase := ph } := by
        intro ph hph
        refine ⟨h.self_eq, h.exp_eq, h.keys_nodup, h.self_notin, h.keys_mem, h.keys_heard, h.val_auth, ?_, ?_, ?_⟩
        · intro a' hacc; cases hacc
        · intro v hv
          have := h.ann_own v hv
          rw [hb] at this
          exact this.mono h3
        · intro l hl
          rcases hph with rfl | rfl
          · exact absurd hl (not_listed_of_collect rfl l)
          · rcases hl with e | ⟨n, e⟩ <;> cases e
      simp only
      split
      · simp only [annOf, List.filterMap_nil, List.append_nil]
        exact (hclosed .collect (Or.inl rfl)).congr rfl rfl rfl rfl rfl rfl h5
      · split
        · simpa [annOf] using hclosed .failed (Or.inr rfl)
        · rename_i hlt hgt
          have hlen : (intersect s.self a).length = s.expected := by omega
          have hne : intersect s.self a ≠ [] := by
            intro e
            rw [e] at hlen
            simp at hlen
            have := h.exp_eq
            omega
          have hsp : intersect s.self a = ownView s.self (accKeys a) ∧ ∀ kv ∈ a, kv.2 = ownView s.self (accKeys a) := by
            rcases intersect_spec (self := s.self) (a := a) with hp | hnil
            · exact hp
            · exact absurd hnil hne
          obtain ⟨hm, hall⟩ := hsp
          have hm' : intersect s.self a = ownView x (accKeys a) := by rw [hm, h.self_eq]
          have hall' : ∀ kv ∈ a, kv.2 = ownView x (accKeys a) := by
            intro kv hkv; rw [hall kv hkv, h.self_eq]
          -- the list settled on
          have key : ∀ (ph : Phase) (outs : List Out), (ph = .done (intersect s.self a) ∨ ∃ n, ph = .query (intersect s.self a) n) →
              annOf x outs = [(x, intersect s.self a)] →
              MInv c (ann ++ annOf x outs) heard x { s with acc := none, phase := ph } := by
            intro ph outs hph hann
            rw [hann, hm']
            have hself : OwnAnn x (ownView x (accKeys a)) (accKeys a) :=
              ⟨accKeys a, rfl, h1, fun hx => h.self_notin (h2 x hx), fun k hk => hk⟩
            refine ⟨h.self_eq, h.exp_eq, h.keys_nodup, h.self_notin, h.keys_mem, h.keys_heard,
              fun k hk hon => List.mem_append.mpr (Or.inl (h.val_auth k hk hon)), ?_, ?_, ?_⟩
            · intro a' hacc; cases hacc
            · intro v hv
              rcases List.mem_append.mp hv with hv | hv
              · have := h.ann_own v hv
                rw [hb] at this
                exact this.mono h3
              · simp at hv
                subst hv
                exact hself.mono h2
            · intro l hl
              have hl' : l = ownView x (accKeys a) := by
                rw [hm'] at hph
                rcases hl with e | ⟨n, e⟩ <;> rcases hph with e' | ⟨n', e'⟩
                · have e2 : Phase.done l = Phase.done (ownView x (accKeys a)) := e.symm.trans e'
                  injection e2
                · have e2 : Phase.done l = Phase.query (ownView x (accKeys a)) n' := e.symm.trans e'
                  cases e2
                · have e2 : Phase.query l n = Phase.done (ownView x (accKeys a)) := e.symm.trans e'
                  cases e2
                · have e2 : Phase.query l n = Phase.query (ownView x (accKeys a)) n' := e.symm.trans e'
                  injection e2
              subst hl'
              refine ⟨?_, rfl, accKeys a, rfl, h1, fun hx => h.self_notin (h2 x hx), h2, ?_, ?_⟩
              · show (ownView x (accKeys a)).length = s.expected
                rw [← hm']; exact hlen
              · intro v hv
                rcases List.mem_append.mp hv with hv | hv
                · have := h.ann_own v hv
                  rw [hb] at this
                  exact this.mono hcov'
                · simp at hv
                  subst hv
                  exact hself
              · intro k hk hon
                obtain ⟨kv, hkv, rfl⟩ := List.mem_map.mp hk
                have := h4 kv hkv hon
                rw [← hall' kv hkv]
                exact List.mem_append.mpr (Or.inl this)
          split
          · exact key _ _ (Or.inl rfl) (by simp [annOf])
          · exact key _ _ (Or.inr ⟨_, rfl⟩) (by simp [annOf])


theorem minv_finishT {c : Cfg} {ann heard x s} (h : MInv c ann heard x s) :
    MInv c (ann ++ annOf x s.finishTick.2) heard x s.finishTick.1 := by
  unfold TSt.finishTick
  split
  · simpa [annOf] using h
  · rename_i a ha
    obtain ⟨h1, h2, h3, h4, h5⟩ := h.acc_ok a ha
    split
    · simpa [annOf] using h
    · rename_i hcov
      have hcov' : ∀ k ∈ s.start, k ∈ accKeys a := covered_spec (by simpa using hcov)
      have hb : base s = s.start := by unfold base; rw [ha]
      have e : ownView s.self (accKeys a) = ownView x (accKeys a) := by rw [h.self_eq]
      simp only [annOf, List.filterMap_cons, List.filterMap_nil]
      rw [e]
      refine ⟨h.self_eq, h.exp_eq, h.keys_nodup, h.self_notin, h.keys_mem, h.keys_heard,
        fun k hk hon => List.mem_append.mpr (Or.inl (h.val_auth k hk hon)), ?_, ?_, ?_⟩
      · intro a' hacc; cases hacc
      · intro v hv
        rcases List.mem_append.mp hv with hv | hv
        · have := h.ann_own v hv
          rw [hb] at this
          exact this.mono h3
        · simp at hv
          subst hv
          exact ⟨accKeys a, rfl, h1, fun hx => h.self_notin (h2 x hx), h2⟩
      · intro l hl
        exact absurd hl (not_listed_of_collect (s := { s with acc := none }) h5 l)

/-- the phase moves within "settled on `l`" (or stays), everything else the invariant reads is unchanged -/
theorem MInv.relist {c : Cfg} {ann heard x} {s s' : TSt} {l : View} (h : MInv c ann heard x s) (hl : Listed s l)
    (e1 : s'.self = s.self) (e2 : s'.expected = s.expected) (e3 : s'.keys = s.keys) (e4 : s'.val = s.val)
    (e5 : s'.acc = s.acc) (e6 : s'.start = s.start) (hp : Listed s' l) : MInv c ann heard x s' := by
  obtain ⟨f1, f2, S', g1, g2, g3, g4, g5, g6⟩ := h.fin l hl
  refine ⟨by rw [e1]; exact h.self_eq, by rw [e2]; exact h.exp_eq, by rw [e3]; exact h.keys_nodup,
    by rw [e3]; exact h.self_notin, by rw [e3]; exact h.keys_mem, by rw [e3]; exact h.keys_heard,
    by rw [e3, e4]; exact h.val_auth, ?_, ?_, ?_⟩
  · intro a ha
    rw [e5, f2] at ha
    cases ha
  · have : base s' = base s := by unfold base; rw [e3, e5, e6]
    rw [this]; exact h.ann_own
  · intro l' hl'
    have : l' = l := by
      rcases hl' with a | ⟨n, a⟩ <;> rcases hp with b | ⟨m, b⟩ <;> rw [a] at b <;> cases b <;> rfl
    subst this
    exact ⟨by rw [e2]; exact f1, by rw [e5]; exact f2, S', g1, g2, g3, by rw [e3]; exact g4, g5, g6⟩

/-- `Synchronize` gives up -/
theorem MInv.fail {c : Cfg} {ann heard x} {s s' : TSt} (h : MInv c ann heard x s)
    (e1 : s'.self = s.self) (e2 : s'.expected = s.expected) (e3 : s'.keys = s.keys) (e4 : s'.val = s.val)
    (e5 : s'.acc = none) (hp : s'.phase = .failed) : MInv c ann heard x s' := by
  refine ⟨by rw [e1]; exact h.self_eq, by rw [e2]; exact h.exp_eq, by rw [e3]; exact h.keys_nodup,
    by rw [e3]; exact h.self_notin, by rw [e3]; exact h.keys_mem, by rw [e3]; exact h.keys_heard,
    by rw [e3, e4]; exact h.val_auth, ?_, ?_, ?_⟩
  · intro a ha
    rw [e5] at ha
    cases ha
  · intro v hv
    have hb : base s' = s.keys := by unfold base; rw [e5, e3]
    rw [hb]
    exact (h.ann_own v hv).mono (base_sub_keys h)
  · intro l hl
    rcases hl with a | ⟨n, a⟩ <;> rw [hp] at a <;> cases a

theorem minv_resp {c : Cfg} {ann heard x s} (h : MInv c ann heard x s) :
    MInv c (ann ++ annOf x s.recvResponse.2) heard x s.recvResponse.1 := by
  unfold TSt.recvResponse
  split
  · rename_i l n v q hp hq
    have hl : Listed s l := Or.inr ⟨_, hp⟩
    split
    · split
      · simp only [annOf, List.filterMap_cons, List.filterMap_nil, List.append_nil]
        exact h.relist hl rfl rfl rfl rfl rfl rfl (Or.inl rfl)
      · simp only [annOf, List.filterMap_nil, List.append_nil]
        exact h.relist hl rfl rfl rfl rfl rfl rfl (Or.inr ⟨_, rfl⟩)
    · simp only [annOf, List.filterMap_nil, List.append_nil]
      exact h.congr rfl rfl rfl rfl rfl rfl rfl
  · simpa [annOf] using h

theorem minv_ctx {c : Cfg} {ann heard x s} (h : MInv c ann heard x s) :
    MInv c (ann ++ annOf x s.ctxDone.2) heard x s.ctxDone.1 := by
  unfold TSt.ctxDone
  split
  · simp only [annOf, List.filterMap_cons, List.filterMap_nil, List.append_nil]
    exact h.fail rfl rfl rfl rfl rfl rfl
  · rename_i l n hp
    simp only [annOf, List.filterMap_cons, List.filterMap_nil, List.append_nil]
    have := (h.fin l (Or.inr ⟨n, hp⟩)).noacc
    exact h.fail rfl rfl rfl rfl this rfl
  · simpa [annOf] using h

theorem minv_op {c : Cfg} {ann heard x s} (h : MInv c ann heard x s) (hpos : 1 ≤ c.exp x) (o : Op) :
    MInv c (ann ++ annOf x (s.op o).2) heard x (s.op o).1 := by
  cases o with
  | begin => simpa [TSt.op, annOf] using minv_begin h
  | visit k => simpa [TSt.op, annOf] using minv_visit h k
  | finishI => exact minv_finishI h hpos
  | finishT => exact minv_finishT h
  | resp => exact minv_resp h
  | ctx => exact minv_ctx h

/-! ### the system -/

structure GInv (c : Cfg) (σ : Sys) : Prop where
  minv : ∀ x s, σ.st x = some s → MInv c σ.ann σ.heard x s
  ann_st : ∀ x v, (x, v) ∈ σ.ann → σ.st x ≠ none
  honest_st : ∀ x s, σ.st x = some s → c.honest x = true ∧ x ∈ c.members

theorem ginv_upd {c : Cfg} {σ : Sys} (g : GInv c σ) {x : Id} {s : TSt} (hs : σ.st x = some s) {r : TSt × List Out}
    {heard' : List (Id × Id)} (hh : ∀ e ∈ σ.heard, e ∈ heard')
    (hr : MInv c (σ.ann ++ annOf x r.2) heard' x r.1) :
    GInv c { (σ.upd x r) with heard := heard' } := by
  refine ⟨?_, ?_, ?_⟩
  · intro y sy hy
    show MInv c (σ.ann ++ annOf x r.2) heard' y sy
    by_cases e : y = x
    · subst e
      have : sy = r.1 := by
        have h2 : (if y = y then some r.1 else σ.st y) = some sy := hy
        rw [if_pos rfl] at h2
        exact (Option.some.inj h2).symm
      subst this
      exact hr
    · have h2 : (if y = x then some r.1 else σ.st y) = some sy := hy
      rw [if_neg e] at h2
      refine (g.minv y sy h2).mono (fun e he => List.mem_append.mpr (Or.inl he)) ?_ hh
      intro v hv
      rcases List.mem_append.mp hv with hv | hv
      · exact hv
      · exact absurd (mem_annOf hv) e
  · intro y v hv
    show (if y = x then some r.1 else σ.st y) ≠ none
    by_cases e : y = x
    · rw [if_pos e]; simp
    · rw [if_neg e]
      have hv' : (y, v) ∈ σ.ann ++ annOf x r.2 := hv
      rcases List.mem_append.mp hv' with hv' | hv'
      · exact g.ann_st y v hv'
      · exact absurd (mem_annOf hv') e
  · intro y sy hy
    have h2 : (if y = x then some r.1 else σ.st y) = some sy := hy
    by_cases e : y = x
    · subst e; exact g.honest_st y s hs
    · rw [if_neg e] at h2; exact g.honest_st y sy h2

theorem reach_ginv {c : Cfg} (hpos : ∀ x, 1 ≤ c.exp x) {σ : Sys} (h : Reach c σ) : GInv c σ := by
  induction h with
  | init =>
    exact ⟨fun x s hs => (by cases hs), fun x v hv => (by cases hv), fun x s hs => (by cases hs)⟩
  | @start σ h x hx hm hn ih =>
    refine ⟨?_, ?_, ?_⟩
    · intro y sy hy
      have h2 : (if y = x then some (TSt.fresh c x) else σ.st y) = some sy := hy
      show MInv c σ.ann σ.heard y sy
      by_cases e : y = x
      · subst e
        rw [if_pos rfl] at h2
        have : sy = TSt.fresh c y := (Option.some.inj h2).symm
        subst this
        exact minv_fresh c _ _ y (fun v hv => ih.ann_st y v hv hn)
      · rw [if_neg e] at h2
        exact ih.minv y sy h2
    · intro y v hv
      show (if y = x then some (TSt.fresh c x) else σ.st y) ≠ none
      by_cases e : y = x
      · rw [if_pos e]; simp
      · rw [if_neg e]; exact ih.ann_st y v hv
    · intro y sy hy
      have h2 : (if y = x then some (TSt.fresh c x) else σ.st y) = some sy := hy
      by_cases e : y = x
      · subst e; exact ⟨hx, hm⟩
      · rw [if_neg e] at h2; exact ih.honest_st y sy h2
  | @handle σ h x src k v s hx hs hsrc hne hauth ih =>
    have hm := ih.minv x s hs
    have hh : ∀ e ∈ σ.heard, e ∈ (if k = .response then σ.heard else σ.heard ++ [(x, src)]) := by
      intro e he
      split
      · exact he
      · exact List.mem_append.mpr (Or.inl he)
    have hnew : k ≠ .response → (x, src) ∈ (if k = .response then σ.heard else σ.heard ++ [(x, src)]) := by
      intro hk
      rw [if_neg hk]
      simp
    obtain ⟨h1, h2⟩ := minv_handle hm hsrc hne hauth hh hnew
    have := ginv_upd ih hs (r := s.handle src k v) hh (by rw [h2, List.append_nil]; exact h1)
    exact this
  | @op σ h x o s hx hs ih =>
    have hm := ih.minv x s hs
    have := ginv_upd ih hs (r := s.op o) (heard' := σ.heard) (fun e he => he) (minv_op hm (hpos x) o)
    exact this

end TSSVerif.Proofs.Disc
