import TSSVerif.Model.RbcNet
import TSSVerif.Proofs.RbcLocal2
import TSSVerif.Proofs.Dispatch
/-!
Inductive invariant of the fault-free session (`Model/RbcNet.lean`) and what it gives at quiescence.
-/
set_option linter.unusedSimpArgs false
set_option linter.unusedVariables false
namespace TSSVerif.Model.RbcNet
open TSSVerif.Model TSSVerif.Model.Rbc

/-- a message is consistent with the workload sent so far -/
def MsgOK (c : Cfg) (sentB : List BW) (src : Id) : Msg → Prop
  | .bcast p d r => (⟨src, r, p⟩ : BW) ∈ sentB ∧ d = c.H p
  | .ack k => ∃ b ∈ sentB, k = bkey c b ∧ src ≠ b.s
  | .p2p _ => True

theorem MsgOK_mono {c : Cfg} {l l' : List BW} (h : ∀ b ∈ l, b ∈ l') {src : Id} {m : Msg}
    (hm : MsgOK c l src m) : MsgOK c l' src m := by
  cases m with
  | bcast p d r => exact ⟨h _ hm.1, hm.2⟩
  | ack k => obtain ⟨b, hb, e⟩ := hm; exact ⟨b, h b hb, e⟩
  | p2p p => trivial

theorem key_of_msg {c : Cfg} {l : List BW} {src : Id} {m : Msg} {k : Key}
    (hm : MsgOK c l src m) (hk : msgKey m src = some k) : ∃ b ∈ l, k = bkey c b := by
  cases m with
  | bcast p d r =>
    simp only [msgKey, Option.some.injEq] at hk
    refine ⟨⟨src, r, p⟩, hm.1, ?_⟩
    rw [← hk, hm.2]; rfl
  | ack k' =>
    simp only [msgKey, Option.some.injEq] at hk
    obtain ⟨b, hb, e, _⟩ := hm
    exact ⟨b, hb, by rw [← hk, e]⟩
  | p2p p => simp [msgKey] at hk

/-- the hand-overs and acknowledgements of member `q` so far -/
def outsOf (c : Cfg) (σ : Net) (q : Id) : List Out := (runMsgs (fresh c q) (σ.inbox q)).2

structure NInv (c : Cfg) (σ : Net) : Prop where
  run_eq : ∀ q, σ.st q = (runMsgs (fresh c q) (σ.inbox q)).1
  self_n : ∀ q, (σ.st q).self = q ∧ (σ.st q).n = c.members.length
  uniq : ∀ b ∈ σ.sentB, ∀ b' ∈ σ.sentB, b.s = b'.s → b.r = b'.r → b = b'
  fl_ok : ∀ f ∈ σ.flight, f.to ∈ c.members ∧ f.src ∈ c.members ∧ f.to ≠ f.src ∧ MsgOK c σ.sentB f.src f.m
  in_ok : ∀ q, ∀ x ∈ σ.inbox q, MsgOK c σ.sentB x.1 x.2
  pin_ok : ∀ q s r d, (σ.st q).pinned (s, r) = some d → ∃ b ∈ σ.sentB, b.s = s ∧ b.r = r ∧ d = c.H b.p
  not_halted : ∀ q, (σ.st q).halted = false
  ids_ok : ∀ q k, ((σ.st q).slot k).ids.Nodup ∧ ∀ x ∈ ((σ.st q).slot k).ids, x ∈ c.members ∧ x ≠ k.s
  full : ∀ q k, Full (σ.st q) k
  deliv_out : ∀ q k, ((σ.st q).slot k).delivered = true → ∃ p, Out.deliverB p k ∈ outsOf c σ q
  track_self : ∀ b ∈ σ.sentB, ∀ q ∈ c.members, q ≠ b.s →
      direct c b q ∈ σ.flight ∨
      (q ∈ ((σ.st q).slot (bkey c b)).ids ∧ ((σ.st q).slot (bkey c b)).m = some b.p)
  track_other : ∀ b ∈ σ.sentB, ∀ q ∈ c.members, q ≠ b.s → ∀ v ∈ c.members, v ≠ b.s → v ≠ q →
      v ∈ ((σ.st q).slot (bkey c b)).ids ∨ (⟨q, v, .ack (bkey c b)⟩ : Flight) ∈ σ.flight ∨
      direct c b v ∈ σ.flight

theorem inv_init (c : Cfg) : NInv c (init c) := by
  refine ⟨?_, ?_, ?_, ?_, ?_, ?_, ?_, ?_, ?_, ?_, ?_, ?_⟩ <;>
    simp [init, fresh, runMsgs, outsOf, full_fresh]

theorem mem_copies {c : Cfg} {b : BW} {q : Id} (hq : q ∈ c.members) (hne : q ≠ b.s) :
    direct c b q ∈ copies c b := by
  unfold copies
  exact List.mem_map.mpr ⟨q, List.mem_filter.mpr ⟨hq, by simpa using hne⟩, rfl⟩

theorem inv_emitB (c : Cfg) {σ : Net} (I : NInv c σ) (b : BW) (hs : b.s ∈ c.members)
    (hfresh : ∀ b' ∈ σ.sentB, ¬ (b'.s = b.s ∧ b'.r = b.r)) :
    NInv c { σ with flight := σ.flight ++ copies c b, sentB := b :: σ.sentB } := by
  have hsub : ∀ x ∈ σ.sentB, x ∈ b :: σ.sentB := fun x hx => List.mem_cons_of_mem _ hx
  refine ⟨I.run_eq, I.self_n, ?_, ?_, ?_, ?_, I.not_halted, I.ids_ok, I.full, I.deliv_out, ?_, ?_⟩
  · intro b1 h1 b2 h2 es er
    simp only [List.mem_cons] at h1 h2
    rcases h1 with h1 | h1 <;> rcases h2 with h2 | h2
    · rw [h1, h2]
    · subst h1; exact absurd ⟨es.symm, er.symm⟩ (hfresh b2 h2)
    · subst h2; exact absurd ⟨es, er⟩ (hfresh b1 h1)
    · exact I.uniq b1 h1 b2 h2 es er
  · intro f hf
    simp only [List.mem_append] at hf
    rcases hf with hf | hf
    · obtain ⟨a1, a2, a3, a4⟩ := I.fl_ok f hf
      exact ⟨a1, a2, a3, MsgOK_mono hsub a4⟩
    · unfold copies at hf
      obtain ⟨q, hq, rfl⟩ := List.mem_map.mp hf
      obtain ⟨hq1, hq2⟩ := List.mem_filter.mp hq
      have hq2' : q ≠ b.s := by simpa using hq2
      exact ⟨hq1, hs, hq2', by simp [direct, MsgOK]⟩
  · intro q x hx
    exact MsgOK_mono hsub (I.in_ok q x hx)
  · intro q s r d h
    obtain ⟨b', hb', e⟩ := I.pin_ok q s r d h
    exact ⟨b', hsub b' hb', e⟩
  · intro b1 h1 q hq hne
    simp only [List.mem_cons] at h1
    rcases h1 with h1 | h1
    · subst h1; exact Or.inl (List.mem_append_right _ (mem_copies hq hne))
    · rcases I.track_self b1 h1 q hq hne with h | h
      · exact Or.inl (List.mem_append_left _ h)
      · exact Or.inr h
  · intro b1 h1 q hq hne v hv hvs hvq
    simp only [List.mem_cons] at h1
    rcases h1 with h1 | h1
    · subst h1; exact Or.inr (Or.inr (List.mem_append_right _ (mem_copies hv hvs)))
    · rcases I.track_other b1 h1 q hq hne v hv hvs hvq with h | h | h
      · exact Or.inl h
      · exact Or.inr (Or.inl (List.mem_append_left _ h))
      · exact Or.inr (Or.inr (List.mem_append_left _ h))

theorem inv_emitP (c : Cfg) {σ : Net} (I : NInv c σ) (src to : Id) (p : Pay)
    (hs : src ∈ c.members) (ht : to ∈ c.members) (hne : src ≠ to) :
    NInv c { σ with flight := σ.flight ++ [⟨to, src, .p2p p⟩], sentP := ⟨to, src, .p2p p⟩ :: σ.sentP } := by
  refine ⟨I.run_eq, I.self_n, I.uniq, ?_, I.in_ok, I.pin_ok, I.not_halted, I.ids_ok, I.full, I.deliv_out, ?_, ?_⟩
  · intro f hf
    simp only [List.mem_append, List.mem_singleton] at hf
    rcases hf with hf | hf
    · exact I.fl_ok f hf
    · subst hf; exact ⟨ht, hs, fun e => hne e.symm, trivial⟩
  · intro b hb q hq hqs
    rcases I.track_self b hb q hq hqs with h | h
    · exact Or.inl (List.mem_append_left _ h)
    · exact Or.inr h
  · intro b hb q hq hqs v hv hvs hvq
    rcases I.track_other b hb q hq hqs v hv hvs hvq with h | h | h
    · exact Or.inl h
    · exact Or.inr (Or.inl (List.mem_append_left _ h))
    · exact Or.inr (Or.inr (List.mem_append_left _ h))

theorem mem_acksOf {c : Cfg} {me q : Id} {outs : List Out} {k : Key}
    (hk : Out.ack k ∈ outs) (hq : q ∈ c.members) (hne : q ≠ me) :
    (⟨q, me, .ack k⟩ : Flight) ∈ acksOf c me outs := by
  unfold acksOf
  refine List.mem_flatMap.mpr ⟨.ack k, hk, ?_⟩
  simp only []
  exact List.mem_map.mpr ⟨q, List.mem_filter.mpr ⟨hq, by simpa using hne⟩, rfl⟩

theorem of_mem_acksOf {c : Cfg} {me : Id} {outs : List Out} {f : Flight} (hf : f ∈ acksOf c me outs) :
    ∃ k, Out.ack k ∈ outs ∧ f.to ∈ c.members ∧ f.to ≠ me ∧ f.src = me ∧ f.m = .ack k := by
  unfold acksOf at hf
  obtain ⟨o, ho, hf⟩ := List.mem_flatMap.mp hf
  cases o with
  | ack k =>
    simp only [] at hf
    obtain ⟨q, hq, rfl⟩ := List.mem_map.mp hf
    obtain ⟨hq1, hq2⟩ := List.mem_filter.mp hq
    exact ⟨k, ho, hq1, by simpa using hq2, rfl, rfl⟩
  | deliverB p k => simp at hf
  | deliverP p x => simp at hf
  | panic => simp at hf

theorem inv_deliver (c : Cfg) {σ : Net} (I : NInv c σ) (f : Flight) (hf : f ∈ σ.flight) :
    NInv c (deliver c σ f) := by
  obtain ⟨hto, hsrcm, htsrc, hmsg⟩ := I.fl_ok f hf
  have hself := (I.self_n f.to).1
  have hn := (I.self_n f.to).2
  have hnh := I.not_halted f.to
  have F := receive_facts (σ.st f.to) f.m f.src
  have G := receive_facts2 (σ.st f.to) f.m f.src
  have K := receive_facts3 (σ.st f.to) f.m f.src
  -- pins of the receiver agree with the key of the arriving message
  have hpin : ∀ k, msgKey f.m f.src = some k → ∀ d, (σ.st f.to).pinned (k.s, k.r) = some d → d = k.d := by
    intro k hk d hd
    obtain ⟨b, hb, e⟩ := key_of_msg hmsg hk
    obtain ⟨b', hb', e1, e2, e3⟩ := I.pin_ok f.to k.s k.r d hd
    have : b' = b := I.uniq b' hb' b hb (by rw [e1, e]; rfl) (by rw [e2, e]; rfl)
    rw [e3, this, e]; rfl
  have hnh' : (receive (σ.st f.to) f.m f.src).1.halted = false := K.no_halt hnh hpin
  -- abbreviations for the new state
  have st_to : (deliver c σ f).st f.to = (receive (σ.st f.to) f.m f.src).1 := by simp [deliver]
  have st_ne : ∀ q, q ≠ f.to → (deliver c σ f).st q = σ.st q := by intro q h; simp [deliver, h]
  have in_to : (deliver c σ f).inbox f.to = σ.inbox f.to ++ [(f.src, f.m)] := by simp [deliver]
  have in_ne : ∀ q, q ≠ f.to → (deliver c σ f).inbox q = σ.inbox q := by intro q h; simp [deliver, h]
  have fl_eq : (deliver c σ f).flight = σ.flight.erase f ++ acksOf c f.to (receive (σ.st f.to) f.m f.src).2 := rfl
  have sb_eq : (deliver c σ f).sentB = σ.sentB := rfl
  have keep : ∀ g, g ∈ σ.flight → g ≠ f → g ∈ (deliver c σ f).flight := by
    intro g hg hne
    rw [fl_eq]; exact List.mem_append_left _ ((List.mem_erase_of_ne hne).mpr hg)
  have outs_to : outsOf c (deliver c σ f) f.to = outsOf c σ f.to ++ (receive (σ.st f.to) f.m f.src).2 := by
    unfold outsOf
    rw [in_to, Dispatch.runMsgs_append, ← I.run_eq f.to]
    simp [runMsgs]
  have outs_ne : ∀ q, q ≠ f.to → outsOf c (deliver c σ f) q = outsOf c σ q := by
    intro q h; unfold outsOf; rw [in_ne q h]
  refine ⟨?_, ?_, I.uniq, ?_, ?_, ?_, ?_, ?_, ?_, ?_, ?_, ?_⟩
  · -- run_eq
    intro q
    by_cases hq : q = f.to
    · subst hq
      rw [st_to, in_to, Dispatch.runMsgs_append, ← I.run_eq f.to]
      simp [runMsgs]
    · rw [st_ne q hq, in_ne q hq]; exact I.run_eq q
  · -- self_n
    intro q
    by_cases hq : q = f.to
    · subst hq; rw [st_to, F.self_eq, F.n_eq]; exact I.self_n f.to
    · rw [st_ne q hq]; exact I.self_n q
  · -- fl_ok
    intro g hg
    rw [fl_eq] at hg
    rcases List.mem_append.mp hg with hg | hg
    · exact I.fl_ok g (List.mem_of_mem_erase hg)
    · obtain ⟨k, hk, g1, g2, g3, g4⟩ := of_mem_acksOf hg
      obtain ⟨p, hm, hks⟩ := K.ack_src k hk
      rw [hm] at hmsg
      refine ⟨g1, by rw [g3]; exact hto, by rw [g3]; exact g2, ?_⟩
      rw [g4, g3]
      refine ⟨⟨f.src, k.r, p⟩, hmsg.1, ?_, htsrc⟩
      cases k; simp only [bkey] at *; simp [hmsg.2, hks]
  · -- in_ok
    intro q x hx
    by_cases hq : q = f.to
    · subst hq
      rw [in_to] at hx
      rcases List.mem_append.mp hx with hx | hx
      · exact I.in_ok f.to x hx
      · simp at hx; subst hx; exact hmsg
    · rw [in_ne q hq] at hx; exact I.in_ok q x hx
  · -- pin_ok
    intro q s r d hd
    by_cases hq : q = f.to
    · subst hq
      rw [st_to] at hd
      rcases K.pin_src (s, r) d hd with h | ⟨k, hk, hx, hdk⟩
      · exact I.pin_ok f.to s r d h
      · obtain ⟨b, hb, e⟩ := key_of_msg hmsg hk
        simp only [Prod.mk.injEq] at hx
        refine ⟨b, hb, ?_, ?_, ?_⟩
        · rw [hx.1, e]; rfl
        · rw [hx.2, e]; rfl
        · rw [hdk, e]; rfl
    · rw [st_ne q hq] at hd; exact I.pin_ok q s r d hd
  · -- not_halted
    intro q
    by_cases hq : q = f.to
    · subst hq; rw [st_to]; exact hnh'
    · rw [st_ne q hq]; exact I.not_halted q
  · -- ids_ok
    intro q k
    by_cases hq : q = f.to
    · subst hq
      rw [st_to]
      refine ⟨F.nodup_keep k (I.ids_ok f.to k).1, ?_⟩
      intro x hx
      rcases F.ids_grow k x hx with h | ⟨h1, h2, h3, h4⟩ | ⟨h1, h2⟩
      · exact (I.ids_ok f.to k).2 x h
      · rw [h1]; exact ⟨hsrcm, h3⟩
      · rw [h1, hself, h2]; exact ⟨hto, htsrc⟩
    · rw [st_ne q hq]; exact I.ids_ok q k
  · -- full
    intro q k
    by_cases hq : q = f.to
    · subst hq; rw [st_to]; exact K.full_keep (I.full f.to) k
    · rw [st_ne q hq]; exact I.full q k
  · -- deliv_out
    intro q k hd
    by_cases hq : q = f.to
    · subst hq
      rw [st_to] at hd
      rw [outs_to]
      rcases K.deliv_new k hd with h | ⟨p, h⟩
      · obtain ⟨p, hp⟩ := I.deliv_out f.to k h
        exact ⟨p, List.mem_append_left _ hp⟩
      · exact ⟨p, List.mem_append_right _ h⟩
    · rw [st_ne q hq] at hd; rw [outs_ne q hq]; exact I.deliv_out q k hd
  · -- track_self
    intro b hb q hq hqs
    rcases I.track_self b hb q hq hqs with h | ⟨h1, h2⟩
    · by_cases hg : direct c b q = f
      · -- the direct copy itself is being delivered
        right
        have e1 : f.to = q := by rw [← hg]; rfl
        have e2 : f.src = b.s := by rw [← hg]; rfl
        have e3 : f.m = .bcast b.p (c.H b.p) b.r := by rw [← hg]; rfl
        have hp' : ∀ d', (σ.st f.to).pinned (f.src, b.r) = some d' → d' = c.H b.p := by
          intro d' hd'
          have := hpin ⟨c.H b.p, f.src, b.r⟩ (by rw [e3]; rfl) d' hd'
          exact this
        obtain ⟨r1, r2, _⟩ := K.bcast_eff b.p (c.H b.p) b.r e3 hnh hp'
        have hk : (⟨c.H b.p, f.src, b.r⟩ : Key) = bkey c b := by rw [e2]; rfl
        rw [hk] at r1 r2
        rw [hself] at r1
        rw [← e1, st_to]
        exact ⟨r1, r2⟩
      · exact Or.inl (keep _ h hg)
    · right
      by_cases hqt : q = f.to
      · subst hqt
        rw [st_to]
        refine ⟨K.ids_mono _ _ h1, ?_⟩
        have hsome : ((receive (σ.st f.to) f.m f.src).1.slot (bkey c b)).m.isSome = true :=
          K.m_mono _ (by rw [h2]; rfl)
        cases hm' : ((receive (σ.st f.to) f.m f.src).1.slot (bkey c b)).m with
        | none => rw [hm'] at hsome; cases hsome
        | some p' =>
          rcases G.m_src (bkey c b) p' hm' with h | ⟨h, hks⟩
          · rw [h2] at h; exact h.symm ▸ rfl
          · rw [h] at hmsg
            have hb' := hmsg.1
            have : (⟨f.src, (bkey c b).r, p'⟩ : BW) = b :=
              I.uniq _ hb' b hb (by simp only [bkey] at hks ⊢; exact hks.symm) rfl
            have hp : p' = b.p := by rw [← this]
            rw [hp]
      · rw [st_ne q hqt]; exact ⟨h1, h2⟩
  · -- track_other
    intro b hb q hq hqs v hv hvs hvq
    rcases I.track_other b hb q hq hqs v hv hvs hvq with h | h | h
    · left
      by_cases hqt : q = f.to
      · subst hqt; rw [st_to]; exact K.ids_mono _ _ h
      · rw [st_ne q hqt]; exact h
    · by_cases hg : (⟨q, v, .ack (bkey c b)⟩ : Flight) = f
      · left
        have e1 : f.to = q := by rw [← hg]
        have e2 : f.src = v := by rw [← hg]
        have e3 : f.m = .ack (bkey c b) := by rw [← hg]
        have := K.ack_eff (bkey c b) e3 hnh (hpin _ (by rw [e3]; rfl))
          (by rw [hself, e1, e2]; exact hvq) (by rw [hself, e1]; exact fun e => hqs e.symm)
          (by rw [e2]; exact hvs)
        rw [← e1, st_to, ← e2]; exact this
      · exact Or.inr (Or.inl (keep _ h hg))
    · by_cases hg : direct c b v = f
      · right; left
        have e1 : f.to = v := by rw [← hg]; rfl
        have e2 : f.src = b.s := by rw [← hg]; rfl
        have e3 : f.m = .bcast b.p (c.H b.p) b.r := by rw [← hg]; rfl
        have hp' : ∀ d', (σ.st f.to).pinned (f.src, b.r) = some d' → d' = c.H b.p := by
          intro d' hd'
          exact hpin ⟨c.H b.p, f.src, b.r⟩ (by rw [e3]; rfl) d' hd'
        obtain ⟨_, _, r3⟩ := K.bcast_eff b.p (c.H b.p) b.r e3 hnh hp'
        rw [fl_eq]
        apply List.mem_append_right
        have hk : (⟨c.H b.p, f.src, b.r⟩ : Key) = bkey c b := by rw [e2]; rfl
        rw [hk] at r3
        have := @mem_acksOf c f.to q _ (bkey c b) r3 hq (by rw [e1]; exact fun e => hvq e.symm)
        rw [← e1]
        exact this
      · exact Or.inr (Or.inr (keep _ h hg))

theorem reach_inv (c : Cfg) {σ : Net} (h : Reach c σ) : NInv c σ := by
  induction h with
  | init => exact inv_init c
  | emitB _ b hs hfresh ih => exact inv_emitB c ih b hs hfresh
  | emitP _ src to p hs ht hne ih => exact inv_emitP c ih src to p hs ht hne
  | deliver _ f hf ih => exact inv_deliver c ih f hf

end TSSVerif.Model.RbcNet
