import TSSVerif.Model.Dispatch
import TSSVerif.Proofs.RbcLocal
import TSSVerif.Props.C13
/-!
Lifting the receiver-level facts to the byte level of the dispatcher (`Model/Dispatch.lean`).
-/
namespace TSSVerif.Model.Dispatch
open TSSVerif.Model TSSVerif.Model.Rbc

theorem parse_never_panics (cfg : Cfg) (src : Id) (data : Bytes) : parse cfg src data ≠ .panic := by
  unfold parse
  have := TSSVerif.Props.C13.decodeAck_never_panics data
  split
  · rename_i h; exact absurd h this
  · simp
  · simp
  · simp only []
    split
    · simp
    · split
      · simp
      · split <;> simp

/-- The message (if any) that one input line hands to the receiver. -/
def accepted (cfg : Cfg) (x : Id × Bytes) : Option (Id × Msg) :=
  match parse cfg x.1 x.2 with
  | .msg m => if x.1 ∈ cfg.allowed then some (x.1, m) else none
  | _ => none

theorem dispatch_eq (cfg : Cfg) (s : St) (src : Id) (data : Bytes) :
    dispatch cfg s src data = runMsgs s (accepted cfg (src, data)).toList := by
  unfold dispatch accepted
  have hp := parse_never_panics cfg src data
  cases h : parse cfg src data with
  | drop => simp [runMsgs]
  | panic => exact absurd h hp
  | msg m =>
    simp only []
    split
    · simp [runMsgs]
    · simp [runMsgs]

theorem runMsgs_append (s : St) (a b : List (Id × Msg)) :
    runMsgs s (a ++ b) = ((runMsgs (runMsgs s a).1 b).1, (runMsgs s a).2 ++ (runMsgs (runMsgs s a).1 b).2) := by
  induction a generalizing s with
  | nil => simp [runMsgs]
  | cons x rest ih =>
    obtain ⟨src, m⟩ := x
    simp only [List.cons_append, runMsgs, ih, List.append_assoc]

theorem run_eq (cfg : Cfg) (s : St) (ins : List (Id × Bytes)) :
    run cfg s ins = runMsgs s (ins.filterMap (accepted cfg)) := by
  induction ins generalizing s with
  | nil => simp [run, runMsgs]
  | cons x rest ih =>
    obtain ⟨src, data⟩ := x
    simp only [run, List.filterMap_cons]
    rw [dispatch_eq, ih]
    cases h : accepted cfg (src, data) with
    | none => simp [runMsgs]
    | some y =>
      obtain ⟨src', m⟩ := y
      simp [runMsgs]

/-- What it means at the byte level that the receiver got `.bcast p d r` from `src`. -/
theorem accepted_bcast {cfg : Cfg} {x : Id × Bytes} {src : Id} {p : Pay} {d : Dig} {r : Round}
    (h : accepted cfg x = some (src, .bcast p d r)) :
    x.1 = src ∧ src ∈ cfg.allowed ∧ decodeAck x.2 = .payload ∧ x.2.tail = p ∧ p ≠ [] ∧
    cfg.classify p = some (r, true) ∧ d = cfg.H p := by
  unfold accepted at h
  split at h
  · rename_i m hm
    split at h
    · rename_i hal
      simp only [Option.some.injEq, Prod.mk.injEq] at h
      obtain ⟨h1, h2⟩ := h
      subst h2
      unfold parse at hm
      split at hm
      · cases hm
      · cases hm
      · cases hm
      · rename_i hdec
        simp only [] at hm
        split at hm
        · cases hm
        · rename_i round b hc
          split at hm
          · cases hm
          · rename_i hne
            split at hm
            · rename_i hb
              simp only [Parsed.msg.injEq, Msg.bcast.injEq] at hm
              obtain ⟨e1, e2, e3⟩ := hm
              subst hb
              refine ⟨h1, h1 ▸ hal, hdec, e1, ?_, ?_, e2.symm ▸ ?_⟩
              · rw [← e1]; exact hne
              · rw [← e1, hc, e3]
              · rw [← e1]
            · cases hm
    · cases h
  · cases h

theorem accepted_p2p {cfg : Cfg} {x : Id × Bytes} {src : Id} {p : Pay}
    (h : accepted cfg x = some (src, .p2p p)) :
    x.1 = src ∧ src ∈ cfg.allowed ∧ decodeAck x.2 = .payload ∧ x.2.tail = p ∧ p ≠ [] ∧
    ∃ r, cfg.classify p = some (r, false) := by
  unfold accepted at h
  split at h
  · rename_i m hm
    split at h
    · rename_i hal
      simp only [Option.some.injEq, Prod.mk.injEq] at h
      obtain ⟨h1, h2⟩ := h
      subst h2
      unfold parse at hm
      split at hm
      · cases hm
      · cases hm
      · cases hm
      · rename_i hdec
        simp only [] at hm
        split at hm
        · cases hm
        · rename_i round b hc
          split at hm
          · cases hm
          · rename_i hne
            split at hm
            · cases hm
            · rename_i hb
              simp only [Parsed.msg.injEq, Msg.p2p.injEq] at hm
              have hb' : b = false := by simpa using hb
              subst hb'
              refine ⟨h1, h1 ▸ hal, hdec, hm, ?_, round, ?_⟩
              · rw [← hm]; exact hne
              · rw [← hm, hc]
    · cases h
  · cases h

theorem accepted_src {cfg : Cfg} {x : Id × Bytes} {y : Id × Msg} (h : accepted cfg x = some y) :
    y.1 = x.1 ∧ x.1 ∈ cfg.allowed := by
  unfold accepted at h
  split at h
  · split at h
    · rename_i hal
      cases h; exact ⟨rfl, hal⟩
    · cases h
  · cases h

end TSSVerif.Model.Dispatch
