import TSSVerif.Model.Sss
/-!
`chooseKoutOfN n k` enumerates every k-subset of {1..n} as an increasing list, exactly once.
-/
namespace TSSVerif.Proofs.Choose
open TSSVerif.Model.Sss

/-- an increasing list with all elements in (i, n] has at most n - i elements -/
theorem sorted_range_length (ext : List Nat) (i n : Nat) (hs : ext.Pairwise (· < ·))
    (hr : ∀ x ∈ ext, i < x ∧ x ≤ n) : ext.length ≤ n - i := by
  induction ext generalizing i with
  | nil => simp
  | cons a rest ih =>
    have ha := hr a List.mem_cons_self
    rw [List.pairwise_cons] at hs
    have := ih a hs.2 (fun x hx => ⟨hs.1 x hx, (hr x (List.mem_cons_of_mem _ hx)).2⟩)
    simp only [List.length_cons]; omega

/-- what `choose n k i cur` enumerates: `cur` extended by every increasing list over (i, n] that
brings the length to `k` -/
def Ext (n k i : Nat) (cur l : List Nat) : Prop :=
  ∃ ext, l = cur ++ ext ∧ ext.Pairwise (· < ·) ∧ (∀ x ∈ ext, i < x ∧ x ≤ n) ∧ cur.length + ext.length = k

theorem mem_choose (n k i : Nat) (cur l : List Nat) : l ∈ choose n k i cur ↔ Ext n k i cur l := by
  fun_induction choose n k i cur with
  | case1 i cur h =>
    simp only [List.mem_singleton]
    constructor
    · intro e; exact ⟨[], by simp [e], List.Pairwise.nil, by simp, by simp [h]⟩
    · rintro ⟨ext, e, _, _, hl⟩
      have : ext = [] := by
        cases ext with
        | nil => rfl
        | cons _ _ => simp at hl; omega
      simp [e, this]
  | case2 i cur h1 h2 =>
    simp only [List.not_mem_nil, false_iff]
    rintro ⟨ext, _, hs, hr, hl⟩
    have := sorted_range_length ext i n hs hr
    omega
  | case3 i cur h1 h2 h3 =>
    simp only [List.not_mem_nil, false_iff]
    rintro ⟨ext, _, hs, hr, hl⟩
    have := sorted_range_length ext i n hs hr
    omega
  | case4 i cur h1 h2 h3 ih1 ih2 =>
    rw [List.mem_append, ih1, ih2]
    constructor
    · rintro (⟨ext, e, hs, hr, hl⟩ | ⟨ext, e, hs, hr, hl⟩)
      · refine ⟨(i + 1) :: ext, by simp [e], ?_, ?_, ?_⟩
        · rw [List.pairwise_cons]; exact ⟨fun x hx => (hr x hx).1, hs⟩
        · intro x hx
          rcases List.mem_cons.mp hx with hx | hx
          · subst hx; omega
          · have := hr x hx; omega
        · simp at hl ⊢; omega
      · refine ⟨ext, e, hs, ?_, hl⟩
        intro x hx; have := hr x hx; omega
    · rintro ⟨ext, e, hs, hr, hl⟩
      cases ext with
      | nil => simp at hl; omega
      | cons a rest =>
        rw [List.pairwise_cons] at hs
        by_cases ha : a = i + 1
        · left
          subst ha
          refine ⟨rest, by simp [e], hs.2, ?_, ?_⟩
          · intro x hx
            exact ⟨hs.1 x hx, (hr x (List.mem_cons_of_mem _ hx)).2⟩
          · simp at hl ⊢; omega
        · right
          refine ⟨a :: rest, e, List.pairwise_cons.mpr hs, ?_, hl⟩
          intro x hx
          have hxr := hr x hx
          have har := hr a List.mem_cons_self
          rcases List.mem_cons.mp hx with hx | hx
          · subst hx; omega
          · have := hs.1 x hx; omega

theorem nodup_choose (n k i : Nat) (cur : List Nat) : (choose n k i cur).Nodup := by
  fun_induction choose n k i cur with
  | case1 => simp
  | case2 => simp
  | case3 => simp
  | case4 i cur h1 h2 h3 ih1 ih2 =>
    rw [List.nodup_append]
    refine ⟨ih1, ih2, ?_⟩
    intro a ha b hb hab
    subst hab
    obtain ⟨e1, he1, _, _, _⟩ := (mem_choose n k (i + 1) (cur ++ [i + 1]) a).mp ha
    obtain ⟨e2, he2, _, hr2, _⟩ := (mem_choose n k (i + 1) cur a).mp hb
    rw [he1, List.append_assoc] at he2
    have := List.append_cancel_left he2
    have hm : i + 1 ∈ e2 := by rw [← this]; simp
    have := (hr2 _ hm).1
    omega

end TSSVerif.Proofs.Choose
