import TSSVerif.Proofs.Rbc
/-!
Single-receiver facts for C03 (integrity): what any input sequence can make one receiver hand to its
backend. Built on the step interface `receive_facts` plus a second interface `receive_facts2`
(shape of the outputs of one step).
-/
namespace TSSVerif.Model.Rbc

def Out.isDeliverB : Out → Bool
  | .deliverB _ _ => true
  | _ => false

/-- broadcast-class hand-over attributed to sender `s` in round `r` -/
def Out.isDeliverSR (s : Id) (r : Round) : Out → Bool
  | .deliverB _ k => k.s = s ∧ k.r = r
  | _ => false

def Out.asP2P : Out → Option (Pay × Id)
  | .deliverP p src => some (p, src)
  | _ => none

def inP2P : Id × Msg → Option (Pay × Id)
  | (src, .p2p p) => some (p, src)
  | _ => none

structure StepFacts2 (s s' : St) (outs : List Out) (msg : Msg) (src : Id) : Prop where
  one_del : ∀ o₁ ∈ outs, ∀ o₂ ∈ outs, o₁.isDeliverB = true → o₂.isDeliverB = true → o₁ = o₂
  del_count : (outs.filter Out.isDeliverB).length ≤ 1
  del_src : ∀ p k, .deliverB p k ∈ outs → (s'.slot k).delivered = true
  p2p_exact : ∀ p, msg = .p2p p → s.halted = false → outs = [.deliverP p src] ∧ s' = s
  p2p_only : ∀ p x, .deliverP p x ∈ outs → msg = .p2p p ∧ x = src
  m_src : ∀ k p, (s'.slot k).m = some p → (s.slot k).m = some p ∨ (msg = .bcast p k.d k.r ∧ k.s = src)
  halt_mono : s.halted = true → s'.halted = true
  no_panic : src ≠ s.self → Out.panic ∉ outs

theorem vouch_outs (s : St) (k : Key) (src : Id) (m : Option Pay) :
    (vouch s k src m).2 = [] ∨ ∃ p, (vouch s k src m).2 = [.deliverB p k] := by
  simp only [vouch]
  split
  · right; exact ⟨_, rfl⟩
  · left; rfl

theorem register_outs (s : St) (k : Key) (src : Id) (m : Option Pay) :
    (register s k src m).2 = [] ∨ ∃ p, (register s k src m).2 = [.deliverB p k] := by
  simp only [register]
  cases pin s k with
  | none => left; rfl
  | some s1 => exact vouch_outs s1 k src m

theorem register_m (s : St) (k : Key) (src : Id) (m : Option Pay) :
    ∀ k' p, ((register s k src m).1.slot k').m = some p →
      (s.slot k').m = some p ∨ (k' = k ∧ m = some p) := by
  intro k' p h
  obtain ⟨_, _, _, _, r5, _, _, r8, _, _⟩ := register_spec s k src m
  by_cases hk : k' = k
  · subst hk
    rcases r8 p h with h | h
    · exact Or.inr ⟨rfl, h⟩
    · exact Or.inl h
  · rw [r5 k' hk] at h; exact Or.inl h

theorem register_halt_mono (s : St) (k : Key) (src : Id) (m : Option Pay) (h : s.halted = true) :
    (register s k src m).1.halted = true := by
  simp only [register]
  cases hp : pin s k with
  | none => rfl
  | some s1 =>
    obtain ⟨_, _, _, _, h5, _, _⟩ := pin_some hp
    obtain ⟨_, _, _, v4, _⟩ := vouch_spec s1 k src m
    simp only []
    rw [v4, h5, h]

theorem facts2_silent (s : St) (msg : Msg) (src : Id) (hm : ∀ p, msg = .p2p p → s.halted = true) :
    StepFacts2 s s [] msg src where
  one_del := by intro o₁ h₁; cases h₁
  del_count := by simp
  del_src := by intro p k h; cases h
  p2p_exact := by
    intro p hp hs
    rw [hm p hp] at hs; cases hs
  p2p_only := by intro p x h; cases h
  m_src := fun _ _ h => Or.inl h
  halt_mono := id
  no_panic := by intro _ h; cases h

/-- facts for a step whose outputs are those of a `register` call, optionally followed by one
acknowledgement. -/
theorem facts2_register (s : St) (k : Key) (vsrc : Id) (m : Option Pay) (msg : Msg) (src : Id)
    (tail : List Out) (htail : tail = [] ∨ tail = [.ack k])
    (hmsg : ∀ p, msg ≠ .p2p p)
    (hm : ∀ p, m = some p → msg = .bcast p k.d k.r ∧ k.s = src) :
    StepFacts2 s (register s k vsrc m).1 ((register s k vsrc m).2 ++ tail) msg src := by
  have ho := register_outs s k vsrc m
  have mem_cases : ∀ o, o ∈ (register s k vsrc m).2 ++ tail →
      (∃ p, o = .deliverB p k ∧ (register s k vsrc m).2 = [.deliverB p k]) ∨ o = .ack k := by
    intro o h
    rcases List.mem_append.mp h with h | h
    · rcases ho with ho | ⟨p, ho⟩
      · rw [ho] at h; cases h
      · rw [ho] at h; simp at h; exact Or.inl ⟨p, h, ho⟩
    · rcases htail with ht | ht
      · rw [ht] at h; cases h
      · rw [ht] at h; simp at h; exact Or.inr h
  exact {
    one_del := by
      intro o₁ h₁ o₂ h₂ d₁ d₂
      rcases mem_cases o₁ h₁ with ⟨p₁, e₁, r₁⟩ | e₁
      · rcases mem_cases o₂ h₂ with ⟨p₂, e₂, r₂⟩ | e₂
        · rw [r₁] at r₂; simp at r₂; rw [e₁, e₂, r₂]
        · rw [e₂] at d₂; simp [Out.isDeliverB] at d₂
      · rw [e₁] at d₁; simp [Out.isDeliverB] at d₁
    del_count := by
      rw [List.filter_append, List.length_append]
      have h2 : (tail.filter Out.isDeliverB).length = 0 := by
        rcases htail with ht | ht
        · rw [ht]; rfl
        · rw [ht]; rfl
      have h1 : ((register s k vsrc m).2.filter Out.isDeliverB).length ≤ 1 := by
        rcases ho with ho | ⟨p, ho⟩
        · rw [ho]; exact Nat.zero_le _
        · rw [ho]; exact Nat.le_refl _
      omega
    del_src := by
      intro p k' hk'
      rcases mem_cases _ hk' with ⟨p', e, r⟩ | e
      · cases e
        obtain ⟨_, _, _, _, _, _, _, _, _, r10⟩ := register_spec s k vsrc m
        obtain ⟨p'', e', _, _, _, e5, _⟩ := r10 (.deliverB p k) (by rw [r]; simp)
        exact e5
      · cases e
    p2p_exact := by intro p hp; exact absurd hp (hmsg p)
    p2p_only := by
      intro p x hx
      rcases mem_cases _ hx with ⟨p', e, _⟩ | e <;> cases e
    m_src := by
      intro k' p hmm
      rcases register_m s k vsrc m k' p hmm with h | ⟨hk, h⟩
      · exact Or.inl h
      · subst hk; exact Or.inr (hm p h)
    halt_mono := register_halt_mono s k vsrc m
    no_panic := by
      intro _ hp
      rcases mem_cases _ hp with ⟨p', e, _⟩ | e <;> cases e }

theorem receive_facts2 (s : St) (msg : Msg) (src : Id) :
    StepFacts2 s (receive s msg src).1 (receive s msg src).2 msg src := by
  unfold receive
  by_cases hh : s.halted = true
  · simp only [hh, if_true]
    exact facts2_silent s msg src (fun _ _ => hh)
  · have hf : s.halted = false := by simpa using hh
    simp only [hf, Bool.false_eq_true, if_false]
    cases msg with
    | p2p p =>
      exact {
        one_del := by intro o₁ h₁ o₂ h₂ _ _; simp at h₁ h₂; rw [h₁, h₂]
        del_count := by simp [Out.isDeliverB]
        del_src := by intro p' k h; simp at h
        p2p_exact := by intro p' hp _; cases hp; exact ⟨rfl, rfl⟩
        p2p_only := by intro p' x hx; simp at hx; obtain ⟨rfl, rfl⟩ := hx; exact ⟨rfl, rfl⟩
        m_src := fun _ _ h => Or.inl h
        halt_mono := id
        no_panic := by intro _ h; simp at h }
    | ack k =>
      simp only []
      split
      · rename_i hs
        exact {
          one_del := by intro o₁ h₁ o₂ h₂ _ _; simp at h₁ h₂; rw [h₁, h₂]
          del_count := by simp [Out.isDeliverB]
          del_src := by intro p' k h; simp at h
          p2p_exact := by intro p' hp; cases hp
          p2p_only := by intro p' x hx; simp at hx
          m_src := fun _ _ h => Or.inl h
          halt_mono := id
          no_panic := fun hne => absurd hs hne }
      · split
        · exact facts2_silent s _ src (fun _ h => by cases h)
        · split
          · exact facts2_silent s _ src (fun _ h => by cases h)
          · have := facts2_register s k src none (.ack k) src [] (Or.inl rfl) (fun _ h => by cases h)
              (fun _ h => by cases h)
            simpa using this
    | bcast p d r =>
      simp only []
      exact facts2_register s ⟨d, src, r⟩ s.self (some p) (.bcast p d r) src [.ack ⟨d, src, r⟩] (Or.inr rfl)
        (fun _ h => by cases h) (fun p' h => by cases h; exact ⟨rfl, rfl⟩)

/-! ## runs of one receiver -/

def runMsgs (s : St) : List (Id × Msg) → St × List Out
  | [] => (s, [])
  | (src, m) :: rest =>
    let r1 := receive s m src
    let r2 := runMsgs r1.1 rest
    (r2.1, r1.2 ++ r2.2)

/-- Invariant of a single receiver's run: `done` are the inputs consumed so far, `outs` everything
emitted so far. -/
structure LInv (done : List (Id × Msg)) (s : St) (outs : List Out) : Prop where
  m_src : ∀ k p, (s.slot k).m = some p → (k.s, Msg.bcast p k.d k.r) ∈ done
  del_auth : ∀ p k, Out.deliverB p k ∈ outs → (k.s, Msg.bcast p k.d k.r) ∈ done
  del_st : ∀ p k, Out.deliverB p k ∈ outs →
      (s.slot k).delivered = true ∧ s.pinned (k.s, k.r) = some k.d
  sr_once : ∀ sd r, (outs.filter (Out.isDeliverSR sd r)).length ≤ 1
  p2p_src : ∀ p x, Out.deliverP p x ∈ outs → (x, Msg.p2p p) ∈ done

theorem filter_sr_le (sd : Id) (r : Round) (l : List Out) :
    (l.filter (Out.isDeliverSR sd r)).length ≤ (l.filter Out.isDeliverB).length := by
  induction l with
  | nil => simp
  | cons o os ih =>
    cases o with
    | deliverB p k =>
      by_cases h : (k.s = sd ∧ k.r = r)
      · simp [List.filter_cons, Out.isDeliverSR, Out.isDeliverB, h, ih]
      · simp [List.filter_cons, Out.isDeliverSR, Out.isDeliverB, h]; omega
    | deliverP p x => simpa [List.filter_cons, Out.isDeliverSR, Out.isDeliverB] using ih
    | ack k => simpa [List.filter_cons, Out.isDeliverSR, Out.isDeliverB] using ih
    | panic => simpa [List.filter_cons, Out.isDeliverSR, Out.isDeliverB] using ih

theorem filter_sr_pos {sd : Id} {r : Round} {l : List Out}
    (h : 0 < (l.filter (Out.isDeliverSR sd r)).length) :
    ∃ p k, Out.deliverB p k ∈ l ∧ k.s = sd ∧ k.r = r := by
  obtain ⟨o, ho⟩ := List.exists_mem_of_length_pos h
  rw [List.mem_filter] at ho
  cases o with
  | deliverB p k =>
    have := ho.2; simp [Out.isDeliverSR] at this
    exact ⟨p, k, ho.1, this.1, this.2⟩
  | deliverP p x => simp [Out.isDeliverSR] at ho
  | ack k => simp [Out.isDeliverSR] at ho
  | panic => simp [Out.isDeliverSR] at ho

theorem linv_step {done : List (Id × Msg)} {s : St} {outs : List Out} (I : LInv done s outs)
    (src : Id) (msg : Msg) :
    LInv (done ++ [(src, msg)]) (receive s msg src).1 (outs ++ (receive s msg src).2) := by
  have F := receive_facts s msg src
  have G := receive_facts2 s msg src
  have m_src' : ∀ k p, ((receive s msg src).1.slot k).m = some p →
      (k.s, Msg.bcast p k.d k.r) ∈ done ++ [(src, msg)] := by
    intro k p hm
    rcases G.m_src k p hm with h | ⟨h1, h2⟩
    · exact List.mem_append_left _ (I.m_src k p h)
    · apply List.mem_append_right; rw [h1, h2]; simp
  refine ⟨m_src', ?_, ?_, ?_, ?_⟩
  · intro p k hk
    rcases List.mem_append.mp hk with h | h
    · exact List.mem_append_left _ (I.del_auth p k h)
    · exact m_src' k p (F.del_out p k h).2.2.2.1
  · intro p k hk
    rcases List.mem_append.mp hk with h | h
    · obtain ⟨a, c⟩ := I.del_st p k h
      exact ⟨F.deliv_mono k a, F.pins_mono _ _ c⟩
    · exact ⟨G.del_src p k h, (F.del_out p k h).2.1⟩
  · intro sd r
    rw [List.filter_append, List.length_append]
    have hb : ((receive s msg src).2.filter (Out.isDeliverSR sd r)).length ≤ 1 :=
      Nat.le_trans (filter_sr_le sd r _) G.del_count
    have ha := I.sr_once sd r
    by_cases hb0 : ((receive s msg src).2.filter (Out.isDeliverSR sd r)).length = 0
    · omega
    · have hbpos : 0 < ((receive s msg src).2.filter (Out.isDeliverSR sd r)).length := by omega
      obtain ⟨p, k, hk, hks, hkr⟩ := filter_sr_pos hbpos
      have hd := F.del_out p k hk
      by_cases ha0 : (outs.filter (Out.isDeliverSR sd r)).length = 0
      · omega
      · exfalso
        have hapos : 0 < (outs.filter (Out.isDeliverSR sd r)).length := by omega
        obtain ⟨p', k', hk', hks', hkr'⟩ := filter_sr_pos hapos
        obtain ⟨a, c⟩ := I.del_st p' k' hk'
        have c' := F.pins_mono _ _ c
        rw [hks', hkr', ← hks, ← hkr, hd.2.1] at c'
        have hdk : k.d = k'.d := Option.some.inj c'
        have hkk : k = k' := by
          cases k; cases k'; simp_all
        rw [hkk] at hd
        rw [hd.2.2.2.2.1] at a
        cases a
  · intro p x hx
    rcases List.mem_append.mp hx with h | h
    · exact List.mem_append_left _ (I.p2p_src p x h)
    · obtain ⟨h1, h2⟩ := G.p2p_only p x h
      apply List.mem_append_right; rw [h1, h2]; simp

theorem linv_init (self n : Nat) : LInv [] ({ self := self, n := n } : St) [] := by
  refine ⟨?_, ?_, ?_, ?_, ?_⟩ <;> simp

theorem linv_run {done : List (Id × Msg)} {s : St} {outs : List Out} (I : LInv done s outs)
    (ins : List (Id × Msg)) :
    LInv (done ++ ins) (runMsgs s ins).1 (outs ++ (runMsgs s ins).2) := by
  induction ins generalizing done s outs with
  | nil => simpa [runMsgs] using I
  | cons x rest ih =>
    obtain ⟨src, msg⟩ := x
    have := ih (linv_step I src msg)
    simpa [runMsgs, List.append_assoc] using this

theorem runMsgs_halt_mono (s : St) (ins : List (Id × Msg)) (h : s.halted = true) :
    (runMsgs s ins).1.halted = true := by
  induction ins generalizing s with
  | nil => simpa [runMsgs] using h
  | cons x rest ih =>
    obtain ⟨src, msg⟩ := x
    simp only [runMsgs]
    exact ih _ ((receive_facts2 s msg src).halt_mono h)

theorem step_p2p_outs (s : St) (msg : Msg) (src : Id) (hs : s.halted = false) :
    (receive s msg src).2.filterMap Out.asP2P = (inP2P (src, msg)).toList := by
  have G := receive_facts2 s msg src
  cases msg with
  | p2p p =>
    rw [(G.p2p_exact p rfl hs).1]; simp [Out.asP2P, inP2P]
  | ack k =>
    have : ∀ o ∈ (receive s (.ack k) src).2, Out.asP2P o = none := by
      intro o ho
      cases o with
      | deliverP p x => exact absurd (G.p2p_only p x ho).1 (by simp)
      | deliverB _ _ => rfl
      | ack _ => rfl
      | panic => rfl
    simp only [inP2P, Option.toList_none]
    exact List.filterMap_eq_nil_iff.mpr this
  | bcast p d r =>
    have : ∀ o ∈ (receive s (.bcast p d r) src).2, Out.asP2P o = none := by
      intro o ho
      cases o with
      | deliverP p' x => exact absurd (G.p2p_only p' x ho).1 (by simp)
      | deliverB _ _ => rfl
      | ack _ => rfl
      | panic => rfl
    simp only [inP2P, Option.toList_none]
    exact List.filterMap_eq_nil_iff.mpr this

theorem run_p2p_exact (s : St) (ins : List (Id × Msg)) (h : (runMsgs s ins).1.halted = false) :
    (runMsgs s ins).2.filterMap Out.asP2P = ins.filterMap inP2P := by
  induction ins generalizing s with
  | nil => simp [runMsgs]
  | cons x rest ih =>
    obtain ⟨src, msg⟩ := x
    simp only [runMsgs] at h ⊢
    have hs : s.halted = false := by
      by_cases hh : s.halted = true
      · have h1 := (receive_facts2 s msg src).halt_mono hh
        have := runMsgs_halt_mono _ rest h1
        rw [this] at h; cases h
      · simpa using hh
    rw [List.filterMap_append, ih _ h, step_p2p_outs s msg src hs, List.filterMap_cons]
    cases inP2P (src, msg) <;> simp

theorem run_no_panic (s : St) (ins : List (Id × Msg)) (hself : ∀ x ∈ ins, x.1 ≠ s.self) :
    Out.panic ∉ (runMsgs s ins).2 := by
  induction ins generalizing s with
  | nil => simp [runMsgs]
  | cons x rest ih =>
    obtain ⟨src, msg⟩ := x
    simp only [runMsgs, List.mem_append, not_or]
    refine ⟨(receive_facts2 s msg src).no_panic (hself (src, msg) (by simp)), ih _ ?_⟩
    intro y hy
    rw [(receive_facts s msg src).self_eq]
    exact hself y (by simp [hy])

end TSSVerif.Model.Rbc
