import TSSVerif.Proofs.RbcLocal
/-!
More single-receiver facts, needed for totality (C04): how voucher sets, payload slots, pins and the
`delivered` flag move in one step, exactly.
-/
namespace TSSVerif.Model.Rbc

/-- the key a message is about, as the receiver sees it -/
def msgKey (msg : Msg) (src : Id) : Option Key :=
  match msg with
  | .ack k => some k
  | .bcast _ d r => some ⟨d, src, r⟩
  | .p2p _ => none

/-- a slot whose voucher set is complete and whose payload is present has been delivered -/
def Full (s : St) (k : Key) : Prop :=
  (s.slot k).ids.length = s.n - 1 → (s.slot k).m.isSome = true → (s.slot k).delivered = true

theorem vouch_exact (s : St) (k : Key) (src : Id) (m : Option Pay) :
    let r := vouch s k src m
    (r.1.slot k).ids = ins src (s.slot k).ids ∧
    (r.1.slot k).m = mergePay m (s.slot k).m ∧
    Full r.1 k ∧
    ((r.1.slot k).delivered = true → (s.slot k).delivered = true ∨ ∃ p, Out.deliverB p k ∈ r.2) := by
  simp only [vouch, Full]
  refine ⟨by simp, by simp, ?_, ?_⟩
  · simp only [if_true]
    intro h1 h2
    simp [h1, h2]
  · simp only [if_true]
    intro h
    cases hd : (s.slot k).delivered with
    | true => left; rfl
    | false =>
      right
      simp only [hd, Bool.false_or, Bool.not_false, Bool.and_true, Bool.and_eq_true, decide_eq_true_eq] at h
      cases hm : mergePay m (s.slot k).m with
      | none => simp [hm] at h
      | some p =>
        refine ⟨p, ?_⟩
        simp [hd, h.1, hm]

theorem register_exact (s : St) (k : Key) (src : Id) (m : Option Pay) (hh : s.halted = false)
    (hpin : ∀ d, s.pinned (k.s, k.r) = some d → d = k.d) :
    let r := register s k src m
    r.1.halted = false ∧
    (r.1.slot k).ids = ins src (s.slot k).ids ∧
    (r.1.slot k).m = mergePay m (s.slot k).m := by
  simp only [register]
  cases hp : pin s k with
  | none =>
    exfalso
    unfold pin at hp
    split at hp
    · rename_i d hd
      have := hpin d hd
      simp [this] at hp
    · cases hp
  | some s1 =>
    obtain ⟨_, _, _, h4, h5, _, _⟩ := pin_some hp
    obtain ⟨_, _, _, v4, _⟩ := vouch_spec s1 k src m
    obtain ⟨e1, e2, _, _⟩ := vouch_exact s1 k src m
    simp only []
    refine ⟨by rw [v4, h5, hh], by rw [e1, h4], by rw [e2, h4]⟩

theorem register_keep (s : St) (k : Key) (src : Id) (m : Option Pay) :
    let r := register s k src m
    (∀ k' x, x ∈ (s.slot k').ids → x ∈ (r.1.slot k').ids) ∧
    (∀ k', (s.slot k').m.isSome = true → (r.1.slot k').m.isSome = true) ∧
    ((∀ k', Full s k') → ∀ k', Full r.1 k') ∧
    (∀ k', (r.1.slot k').delivered = true → (s.slot k').delivered = true ∨ ∃ p, Out.deliverB p k' ∈ r.2) ∧
    (∀ x d, r.1.pinned x = some d → s.pinned x = some d ∨ (x = (k.s, k.r) ∧ d = k.d)) := by
  simp only [register]
  cases hp : pin s k with
  | none =>
    simp only []
    exact ⟨fun _ _ h => h, fun _ h => h, fun h => h, fun _ h => Or.inl h, fun _ _ h => Or.inl h⟩
  | some s1 =>
    obtain ⟨_, _, h3, h4, _, _, h7⟩ := pin_some hp
    obtain ⟨_, v2, v3, _, v5, _⟩ := vouch_spec s1 k src m
    obtain ⟨e1, e2, e3, e4⟩ := vouch_exact s1 k src m
    simp only []
    refine ⟨?_, ?_, ?_, ?_, ?_⟩
    · intro k' x hx
      by_cases hk : k' = k
      · subst hk; rw [e1, h4]; exact mem_ins.mpr (Or.inr hx)
      · rw [v5 k' hk, h4]; exact hx
    · intro k' hm
      by_cases hk : k' = k
      · subst hk; rw [e2, h4]
        cases m with
        | none => simpa [mergePay] using hm
        | some p => simp [mergePay]
      · rw [v5 k' hk, h4]; exact hm
    · intro hF k'
      by_cases hk : k' = k
      · subst hk; exact e3
      · have := hF k'
        unfold Full at this ⊢
        rw [v5 k' hk, h4, v2, h3]; exact this
    · intro k' hd
      by_cases hk : k' = k
      · subst hk
        rcases e4 hd with h | h
        · left; rw [← h4]; exact h
        · right; exact h
      · rw [v5 k' hk, h4] at hd; exact Or.inl hd
    · intro x d hx
      rw [v3] at hx
      exact h7 x d hx

structure StepFacts3 (s s' : St) (outs : List Out) (msg : Msg) (src : Id) : Prop where
  ids_mono : ∀ k x, x ∈ (s.slot k).ids → x ∈ (s'.slot k).ids
  m_mono : ∀ k, (s.slot k).m.isSome = true → (s'.slot k).m.isSome = true
  full_keep : (∀ k, Full s k) → ∀ k, Full s' k
  deliv_new : ∀ k, (s'.slot k).delivered = true → (s.slot k).delivered = true ∨ ∃ p, Out.deliverB p k ∈ outs
  ack_src : ∀ k, Out.ack k ∈ outs → ∃ p, msg = .bcast p k.d k.r ∧ k.s = src
  pin_src : ∀ x d, s'.pinned x = some d → s.pinned x = some d ∨
      ∃ k, msgKey msg src = some k ∧ x = (k.s, k.r) ∧ d = k.d
  no_halt : s.halted = false → (∀ k, msgKey msg src = some k → ∀ d, s.pinned (k.s, k.r) = some d → d = k.d) →
      s'.halted = false
  bcast_eff : ∀ p d r, msg = .bcast p d r → s.halted = false →
      (∀ d', s.pinned (src, r) = some d' → d' = d) →
      s.self ∈ (s'.slot ⟨d, src, r⟩).ids ∧ (s'.slot ⟨d, src, r⟩).m = some p ∧ Out.ack ⟨d, src, r⟩ ∈ outs
  ack_eff : ∀ k, msg = .ack k → s.halted = false → (∀ d', s.pinned (k.s, k.r) = some d' → d' = k.d) →
      src ≠ s.self → k.s ≠ s.self → src ≠ k.s → src ∈ (s'.slot k).ids

theorem facts3_silent (s : St) (msg : Msg) (src : Id)
    (hb : ∀ p d r, msg = .bcast p d r → s.halted = true)
    (ha : ∀ k, msg = .ack k → s.halted = true ∨ src = s.self ∨ k.s = s.self ∨ src = k.s) (tail : List Out)
    (ht : ∀ k, Out.ack k ∉ tail) :
    StepFacts3 s s tail msg src where
  ids_mono := fun _ _ h => h
  m_mono := fun _ h => h
  full_keep := fun h => h
  deliv_new := fun _ h => Or.inl h
  ack_src := fun k h => absurd h (ht k)
  pin_src := fun _ _ h => Or.inl h
  no_halt := fun h _ => h
  bcast_eff := by
    intro p d r hm hs
    rw [hb p d r hm] at hs; cases hs
  ack_eff := by
    intro k hm hs _ h1 h2 h3
    rcases ha k hm with h | h | h | h
    · rw [h] at hs; cases hs
    · exact absurd h h1
    · exact absurd h h2
    · exact absurd h h3

theorem receive_facts3 (s : St) (msg : Msg) (src : Id) :
    StepFacts3 s (receive s msg src).1 (receive s msg src).2 msg src := by
  unfold receive
  by_cases hh : s.halted = true
  · simp only [hh, if_true]
    exact facts3_silent s msg src (fun _ _ _ _ => hh) (fun _ _ => Or.inl hh) [] (by simp)
  · have hf : s.halted = false := by simpa using hh
    simp only [hf, Bool.false_eq_true, if_false]
    cases msg with
    | p2p p =>
      exact facts3_silent s _ src (fun _ _ _ h => by cases h) (fun _ h => by cases h) _ (by simp)
    | ack k =>
      simp only []
      split
      · rename_i h1
        exact facts3_silent s _ src (fun _ _ _ h => by cases h)
          (fun k' h => by cases h; exact Or.inr (Or.inl h1)) _ (by simp)
      · split
        · rename_i h2
          exact facts3_silent s _ src (fun _ _ _ h => by cases h)
            (fun k' h => by cases h; exact Or.inr (Or.inr (Or.inl h2))) _ (by simp)
        · split
          · rename_i h3
            exact facts3_silent s _ src (fun _ _ _ h => by cases h)
              (fun k' h => by cases h; exact Or.inr (Or.inr (Or.inr h3))) _ (by simp)
          · obtain ⟨k1, k2, k3, k4, k5⟩ := register_keep s k src none
            have ho := register_outs s k src none
            exact {
              ids_mono := k1
              m_mono := k2
              full_keep := k3
              deliv_new := k4
              ack_src := by
                intro k' hk'
                rcases ho with ho | ⟨p, ho⟩ <;> rw [ho] at hk' <;> simp at hk'
              pin_src := by
                intro x d hx
                rcases k5 x d hx with h | ⟨h1, h2⟩
                · exact Or.inl h
                · exact Or.inr ⟨k, rfl, h1, h2⟩
              no_halt := by
                intro _ hp
                exact (register_exact s k src none hf (hp k rfl)).1
              bcast_eff := by intro p d r h; cases h
              ack_eff := by
                intro k' hm _ hp _ _ _
                cases hm
                rw [(register_exact s k src none hf hp).2.1]
                exact mem_ins.mpr (Or.inl rfl) }
    | bcast p d r =>
      simp only []
      obtain ⟨k1, k2, k3, k4, k5⟩ := register_keep s ⟨d, src, r⟩ s.self (some p)
      have ho := register_outs s ⟨d, src, r⟩ s.self (some p)
      exact {
        ids_mono := k1
        m_mono := k2
        full_keep := k3
        deliv_new := by
          intro k' hd
          rcases k4 k' hd with h | ⟨p', h⟩
          · exact Or.inl h
          · exact Or.inr ⟨p', List.mem_append_left _ h⟩
        ack_src := by
          intro k' hk'
          simp only [List.mem_append, List.mem_singleton] at hk'
          rcases hk' with hk' | hk'
          · rcases ho with ho | ⟨p', ho⟩ <;> rw [ho] at hk' <;> simp at hk'
          · cases hk'; exact ⟨p, rfl, rfl⟩
        pin_src := by
          intro x d' hx
          rcases k5 x d' hx with h | ⟨h1, h2⟩
          · exact Or.inl h
          · exact Or.inr ⟨⟨d, src, r⟩, rfl, h1, h2⟩
        no_halt := by
          intro _ hp
          exact (register_exact s ⟨d, src, r⟩ s.self (some p) hf (hp _ rfl)).1
        bcast_eff := by
          intro p' d' r' hm _ hp
          cases hm
          obtain ⟨_, e2, e3⟩ := register_exact s ⟨d, src, r⟩ s.self (some p) hf hp
          refine ⟨?_, ?_, by simp⟩
          · rw [e2]; exact mem_ins.mpr (Or.inl rfl)
          · rw [e3]; rfl
        ack_eff := by intro k h; cases h }

theorem full_fresh (self n : Nat) : ∀ k, Full ({ self := self, n := n } : St) k := by
  intro k; unfold Full; intro _ h; simp at h

end TSSVerif.Model.Rbc
