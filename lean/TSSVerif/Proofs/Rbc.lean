import Batteries.Data.List.Perm
import TSSVerif.Model.Rbc
/-!
Helper lemmas for the reliable-broadcast properties (C02, C03, C04): one specification lemma per
model function, one interface lemma (`receive_facts`) that the system-level proofs use exclusively,
the counting lemma, and the inductive invariant of the session system.
-/
namespace TSSVerif.Model.Rbc

/-! ## local facts -/

theorem pin_some {s s1 : St} {k : Key} (h : pin s k = some s1) :
    s1.pinned (k.s, k.r) = some k.d ∧ s1.self = s.self ∧ s1.n = s.n ∧ s1.slot = s.slot ∧ s1.halted = s.halted ∧
    (∀ x d, s.pinned x = some d → s1.pinned x = some d) ∧
    (∀ x d, s1.pinned x = some d → s.pinned x = some d ∨ (x = (k.s, k.r) ∧ d = k.d)) := by
  unfold pin at h
  split at h
  · rename_i d hd
    split at h
    · cases h; subst_vars; simp_all
    · cases h
  · rename_i hn
    cases h
    refine ⟨by simp, rfl, rfl, rfl, rfl, ?_, ?_⟩
    · intro x d hx; by_cases hxk : x = (k.s, k.r)
      · subst hxk; simp_all
      · simp [hxk, hx]
    · intro x d hx; by_cases hxk : x = (k.s, k.r)
      · right; simp [hxk] at hx; exact ⟨hxk, hx.symm⟩
      · left; simpa [hxk] using hx


/-- everything the system-level proof needs to know about `vouch`. -/
theorem vouch_spec (s : St) (k : Key) (src : Id) (m : Option Pay) :
    let r := vouch s k src m
    r.1.self = s.self ∧ r.1.n = s.n ∧ r.1.pinned = s.pinned ∧ r.1.halted = s.halted ∧
    (∀ k', k' ≠ k → r.1.slot k' = s.slot k') ∧
    (r.1.slot k).ids = ins src (s.slot k).ids ∧
    (r.1.slot k).m = mergePay m (s.slot k).m ∧
    ((s.slot k).delivered = true → (r.1.slot k).delivered = true ∧ r.2 = []) ∧
    (∀ o ∈ r.2, ∃ p, o = .deliverB p k ∧ (r.1.slot k).m = some p ∧ (r.1.slot k).ids.length = s.n - 1 ∧
        (s.slot k).delivered = false ∧ (r.1.slot k).delivered = true) := by
  simp only [vouch]
  refine ⟨trivial, trivial, trivial, trivial, ?_, by simp, by simp, ?_, ?_⟩
  · intro k' hk; simp [hk]
  · intro hd; simp [hd]
  · intro o ho
    split at ho
    · rename_i p hf hm
      simp at ho; subst ho
      simp at hf
      refine ⟨p, rfl, ?_, ?_, ?_, ?_⟩
      · simp [hm]
      · simp [hf.1.1]
      · simpa using hf.1.2
      · simp [hf]
    · simp at ho


theorem register_spec (s : St) (k : Key) (src : Id) (m : Option Pay) :
    let r := register s k src m
    r.1.self = s.self ∧ r.1.n = s.n ∧
    (∀ x d, s.pinned x = some d → r.1.pinned x = some d) ∧
    (s.halted = false → r.1.halted = false → r.1.pinned (k.s, k.r) = some k.d) ∧
    (∀ k', k' ≠ k → r.1.slot k' = s.slot k') ∧
    (∀ x, x ∈ (r.1.slot k).ids → x = src ∨ x ∈ (s.slot k).ids) ∧
    ((s.slot k).ids.Nodup → (r.1.slot k).ids.Nodup) ∧
    (∀ p, (r.1.slot k).m = some p → m = some p ∨ (s.slot k).m = some p) ∧
    ((s.slot k).delivered = true → (r.1.slot k).delivered = true) ∧
    (∀ o ∈ r.2, ∃ p, o = .deliverB p k ∧ (r.1.slot k).m = some p ∧ (r.1.slot k).ids.length = s.n - 1 ∧
        (s.slot k).delivered = false ∧ (r.1.slot k).delivered = true ∧ r.1.halted = s.halted ∧
        r.1.pinned (k.s, k.r) = some k.d) := by
  simp only [register]
  cases hp : pin s k with
  | none =>
    simp only []
    refine ⟨trivial, trivial, fun _ _ h => h, ?_, fun _ _ => trivial, fun _ h => Or.inr h, id, fun _ h => Or.inr h, id, ?_⟩
    · intro _ h; simp at h
    · intro o ho; simp at ho
  | some s1 =>
    simp only []
    obtain ⟨h1, h2, h3, h4, h5, h6, h7⟩ := pin_some hp
    obtain ⟨v1, v2, v3, v4, v5, v6, v7, v8, v9⟩ := vouch_spec s1 k src m
    refine ⟨by rw [v1, h2], by rw [v2, h3], ?_, ?_, ?_, ?_, ?_, ?_, ?_, ?_⟩
    · intro x d hx; rw [v3]; exact h6 x d hx
    · intro _ _; rw [v3]; exact h1
    · intro k' hk; rw [v5 k' hk, h4]
    · intro x hx; rw [v6, h4] at hx; exact mem_ins.mp hx
    · intro hn; rw [v6, h4]; exact nodup_ins hn
    · intro p hm; rw [v7, h4] at hm
      cases m with
      | none => right; simpa [mergePay] using hm
      | some p' => left; simpa [mergePay] using hm
    · intro hd; rw [← h4] at hd; exact (v8 hd).1
    · intro o ho
      obtain ⟨p, e1, e2, e3, e4, e5⟩ := v9 o ho
      exact ⟨p, e1, e2, by rw [e3, h3], by rw [← h4]; exact e4, e5, by rw [v4, h5], by rw [v3]; exact h1⟩


/-! ## what one `receive` does, as seen from outside -/

structure StepFacts (s s' : St) (outs : List Out) (msg : Msg) (src : Id) : Prop where
  self_eq : s'.self = s.self
  n_eq : s'.n = s.n
  halted_stuck : s.halted = true → s' = s ∧ outs = []
  pins_mono : ∀ x d, s.pinned x = some d → s'.pinned x = some d
  ack_out : ∀ k, .ack k ∈ outs → k.s = src ∧ (s'.pinned (k.s, k.r) = some k.d ∨ s'.halted = true)
  del_out : ∀ p k, .deliverB p k ∈ outs → s'.halted = false ∧ s'.pinned (k.s, k.r) = some k.d ∧
      (s'.slot k).ids.length = s.n - 1 ∧ (s'.slot k).m = some p ∧ (s.slot k).delivered = false ∧
      (k.s ≠ s.self ∨ k.s = src)
  ids_grow : ∀ k x, x ∈ (s'.slot k).ids → x ∈ (s.slot k).ids ∨
      (x = src ∧ msg = .ack k ∧ src ≠ k.s ∧ src ≠ s.self) ∨ (x = s.self ∧ k.s = src)
  nodup_keep : ∀ k, (s.slot k).ids.Nodup → (s'.slot k).ids.Nodup
  m_grow : ∀ k p, (s'.slot k).m = some p → (s.slot k).m = some p ∨ k.s = src
  deliv_mono : ∀ k, (s.slot k).delivered = true → (s'.slot k).delivered = true

theorem receive_facts (s : St) (msg : Msg) (src : Id) :
    StepFacts s (receive s msg src).1 (receive s msg src).2 msg src := by
  unfold receive
  by_cases hh : s.halted = true
  · simp only [hh, if_true]
    exact ⟨rfl, rfl, fun _ => ⟨rfl, rfl⟩, fun _ _ h => h, by simp, by simp, fun _ _ h => Or.inl h,
      fun _ h => h, fun _ _ h => Or.inl h, fun _ h => h⟩
  · have hf : s.halted = false := by simpa using hh
    simp only [hf, Bool.false_eq_true, if_false]
    cases msg with
    | p2p p =>
      exact ⟨rfl, rfl, fun h => by simp [hf] at h, fun _ _ h => h, by simp, by simp,
        fun _ _ h => Or.inl h, fun _ h => h, fun _ _ h => Or.inl h, fun _ h => h⟩
    | ack k =>
      simp only []
      split
      · exact ⟨rfl, rfl, fun h => by simp [hf] at h, fun _ _ h => h, by simp, by simp,
          fun _ _ h => Or.inl h, fun _ h => h, fun _ _ h => Or.inl h, fun _ h => h⟩
      · split
        · exact ⟨rfl, rfl, fun h => by simp [hf] at h, fun _ _ h => h, by simp, by simp,
            fun _ _ h => Or.inl h, fun _ h => h, fun _ _ h => Or.inl h, fun _ h => h⟩
        · split
          · exact ⟨rfl, rfl, fun h => by simp [hf] at h, fun _ _ h => h, by simp, by simp,
              fun _ _ h => Or.inl h, fun _ h => h, fun _ _ h => Or.inl h, fun _ h => h⟩
          · rename_i h1 h2 h3
            obtain ⟨r1, r2, r3, r4, r5, r6, r7, r8, r9, r10⟩ := register_spec s k src none
            refine ⟨r1, r2, fun h => by simp [hf] at h, r3, ?_, ?_, ?_, ?_, ?_, ?_⟩
            · intro k' hk'
              obtain ⟨p, e, _⟩ := r10 _ hk'
              cases e
            · intro p k' hk'
              obtain ⟨p', e, e2, e3, e4, e5, e6, e7⟩ := r10 _ hk'
              cases e
              exact ⟨by rw [e6, hf], e7, e3, e2, e4, Or.inl h2⟩
            · intro k' x hx
              by_cases hk : k' = k
              · subst hk
                rcases r6 x hx with h | h
                · exact Or.inr (Or.inl ⟨h, rfl, h3, h1⟩)
                · exact Or.inl h
              · rw [r5 k' hk] at hx; exact Or.inl hx
            · intro k' hn
              by_cases hk : k' = k
              · subst hk; exact r7 hn
              · rw [r5 k' hk]; exact hn
            · intro k' p hm
              by_cases hk : k' = k
              · subst hk
                rcases r8 p hm with h | h
                · cases h
                · exact Or.inl h
              · rw [r5 k' hk] at hm; exact Or.inl hm
            · intro k' hd
              by_cases hk : k' = k
              · subst hk; exact r9 hd
              · rw [r5 k' hk]; exact hd
    | bcast p d r =>
      simp only []
      obtain ⟨r1, r2, r3, r4, r5, r6, r7, r8, r9, r10⟩ := register_spec s ⟨d, src, r⟩ s.self (some p)
      refine ⟨r1, r2, fun h => by simp [hf] at h, r3, ?_, ?_, ?_, ?_, ?_, ?_⟩
      · intro k' hk'
        simp only [List.mem_append, List.mem_singleton] at hk'
        rcases hk' with hk' | hk'
        · obtain ⟨p', e, _⟩ := r10 _ hk'; cases e
        · cases hk'
          refine ⟨rfl, ?_⟩
          by_cases hh' : (register s ⟨d, src, r⟩ s.self (some p)).1.halted = true
          · exact Or.inr hh'
          · exact Or.inl (r4 hf (by simpa using hh'))
      · intro p' k' hk'
        simp only [List.mem_append, List.mem_singleton] at hk'
        rcases hk' with hk' | hk'
        · obtain ⟨p'', e, e2, e3, e4, e5, e6, e7⟩ := r10 _ hk'
          cases e
          exact ⟨by rw [e6, hf], e7, e3, e2, e4, Or.inr rfl⟩
        · cases hk'
      · intro k' x hx
        by_cases hk : k' = ⟨d, src, r⟩
        · subst hk
          rcases r6 x hx with h | h
          · exact Or.inr (Or.inr ⟨h, rfl⟩)
          · exact Or.inl h
        · rw [r5 k' hk] at hx; exact Or.inl hx
      · intro k' hn
        by_cases hk : k' = ⟨d, src, r⟩
        · subst hk; exact r7 hn
        · rw [r5 k' hk]; exact hn
      · intro k' p' hm
        by_cases hk : k' = ⟨d, src, r⟩
        · subst hk; exact Or.inr rfl
        · rw [r5 k' hk] at hm; exact Or.inl hm
      · intro k' hd
        by_cases hk : k' = ⟨d, src, r⟩
        · subst hk; exact r9 hd
        · rw [r5 k' hk]; exact hd


theorem count_lemma {ids members : List Nat} {s : Nat}
    (hn : ids.Nodup) (hsub : ∀ x ∈ ids, x ∈ members ∧ x ≠ s) (hs : s ∈ members)
    (hlen : ids.length = members.length - 1) :
    ∀ q ∈ members, q ≠ s → q ∈ ids := by
  intro q hq hqs
  have h1 : ids ⊆ members.erase s := by
    intro x hx
    obtain ⟨a, b⟩ := hsub x hx
    exact (List.mem_erase_of_ne b).mpr a
  have h2 : ids.Subperm (members.erase s) := List.subperm_of_subset hn h1
  have h3 : (members.erase s).length ≤ ids.length := by
    rw [List.length_erase_of_mem hs, hlen]; omega
  have h4 : ids.Perm (members.erase s) := h2.perm_of_length_le h3
  exact h4.mem_iff.mpr ((List.mem_erase_of_ne hqs).mpr hq)

structure Inv (c : Cfg) (σ : Sys) : Prop where
  self_n : ∀ p, (σ.st p).self = p ∧ (σ.st p).n = c.members.length
  ids_ok : ∀ p, c.honest p = true → p ∈ c.members → ∀ k x, x ∈ ((σ.st p).slot k).ids →
      x ∈ c.members ∧ x ≠ k.s ∧ (x ≠ p → c.honest x = true → (x, Out.ack k) ∈ σ.hist)
  nodup : ∀ p k, ((σ.st p).slot k).ids.Nodup
  m_ok : ∀ p k pay, ((σ.st p).slot k).m = some pay → k.s ∈ c.members
  J : ∀ p k, (p, Out.ack k) ∈ σ.hist → (σ.st p).pinned (k.s, k.r) = some k.d ∨ (σ.st p).halted = true
  A : ∀ p pay k, (p, Out.deliverB pay k) ∈ σ.hist → (σ.st p).pinned (k.s, k.r) = some k.d
  K : ∀ p pay k, (p, Out.deliverB pay k) ∈ σ.hist → p ≠ k.s ∧
      ∀ q ∈ c.members, q ≠ k.s → q ≠ p → c.honest q = true → (q, Out.ack k) ∈ σ.hist
  agree : ∀ p q pay pay' k k', (p, Out.deliverB pay k) ∈ σ.hist → (q, Out.deliverB pay' k') ∈ σ.hist →
      k.s = k'.s → k.r = k'.r → k.d = k'.d

theorem inv_init (c : Cfg) : Inv c (init c) := by
  refine ⟨fun p => ⟨rfl, rfl⟩, ?_, ?_, ?_, ?_, ?_, ?_, ?_⟩ <;> simp [init]


theorem mem_hist_recv {c : Cfg} {σ : Sys} {p src : Id} {msg : Msg} (hs : src ∈ c.members) (q : Id) (o : Out) :
    (q, o) ∈ (σ.recv c p src msg).hist ↔ (q, o) ∈ σ.hist ∨ (q = p ∧ o ∈ (receive (σ.st p) msg src).2) := by
  simp only [Sys.recv, hs, if_true, List.mem_append, List.mem_map, Prod.mk.injEq]
  constructor
  · rintro (h | ⟨o', ho', rfl, rfl⟩)
    · exact Or.inl h
    · exact Or.inr ⟨rfl, ho'⟩
  · rintro (h | ⟨rfl, h⟩)
    · exact Or.inl h
    · exact Or.inr ⟨o, h, rfl, rfl⟩

theorem st_recv {c : Cfg} {σ : Sys} {p src : Id} {msg : Msg} (hs : src ∈ c.members) (q : Id) :
    (σ.recv c p src msg).st q = if q = p then (receive (σ.st p) msg src).1 else σ.st q := by
  simp [Sys.recv, hs]

theorem inv_step (c : Cfg) (hnd : c.members.Nodup) {σ : Sys} (I : Inv c σ) (p src : Id) (msg : Msg)
    (hp : c.honest p = true) (hpm : p ∈ c.members) (hsrc : src ≠ p)
    (hauth : c.honest src = true → ∀ k, msg = .ack k → src ≠ k.s → (src, Out.ack k) ∈ σ.hist) :
    Inv c (σ.recv c p src msg) := by
  by_cases hs : src ∈ c.members
  case neg => simpa [Sys.recv, hs] using I
  have F := receive_facts (σ.st p) msg src
  have hself : (σ.st p).self = p := (I.self_n p).1
  have hn : (σ.st p).n = c.members.length := (I.self_n p).2
  -- abbreviations
  have H := @mem_hist_recv c σ p src msg hs
  have S := @st_recv c σ p src msg hs
  have hmono : ∀ q o, (q, o) ∈ σ.hist → (q, o) ∈ (σ.recv c p src msg).hist := fun q o h => (H q o).mpr (Or.inl h)
  -- new-state facts at p
  have ids_ok' : ∀ k x, x ∈ ((receive (σ.st p) msg src).1.slot k).ids →
      x ∈ c.members ∧ x ≠ k.s ∧ (x ≠ p → c.honest x = true → (x, Out.ack k) ∈ (σ.recv c p src msg).hist) := by
    intro k x hx
    rcases F.ids_grow k x hx with h | ⟨rfl, hm, h1, h2⟩ | ⟨rfl, h1⟩
    · obtain ⟨a, b, d⟩ := I.ids_ok p hp hpm k x h
      exact ⟨a, b, fun h1 h2 => hmono _ _ (d h1 h2)⟩
    · exact ⟨hs, h1, fun _ hh => hmono _ _ (hauth hh k hm h1)⟩
    · rw [hself]
      exact ⟨hpm, by rw [h1]; exact fun h => hsrc h.symm, fun h => absurd rfl h⟩
  have m_ok' : ∀ k pay, ((receive (σ.st p) msg src).1.slot k).m = some pay → k.s ∈ c.members := by
    intro k pay hm
    rcases F.m_grow k pay hm with h | h
    · exact I.m_ok p k pay h
    · rw [h]; exact hs
  have del' : ∀ pay k, Out.deliverB pay k ∈ (receive (σ.st p) msg src).2 →
      (receive (σ.st p) msg src).1.pinned (k.s, k.r) = some k.d ∧ p ≠ k.s ∧ (σ.st p).halted = false ∧
      ∀ q ∈ c.members, q ≠ k.s → q ≠ p → c.honest q = true → (q, Out.ack k) ∈ (σ.recv c p src msg).hist := by
    intro pay k hd
    obtain ⟨d1, d2, d3, d4, d5, d6⟩ := F.del_out pay k hd
    have hpk : p ≠ k.s := by
      rcases d6 with h | h
      · rw [hself] at h; exact fun e => h e.symm
      · rw [h]; exact fun e => hsrc e.symm
    have hnh : (σ.st p).halted = false := by
      by_cases hh : (σ.st p).halted = true
      · have := (F.halted_stuck hh).2; rw [this] at hd; cases hd
      · simpa using hh
    refine ⟨d2, hpk, hnh, ?_⟩
    intro q hq hqs hqp hqh
    have hmem : q ∈ ((receive (σ.st p) msg src).1.slot k).ids := by
      apply count_lemma (F.nodup_keep k (I.nodup p k)) (fun x hx => ⟨(ids_ok' k x hx).1, (ids_ok' k x hx).2.1⟩)
        (m_ok' k pay d4) (by rw [d3, hn]) q hq hqs
    exact (ids_ok' k q hmem).2.2 hqp hqh
  refine ⟨?_, ?_, ?_, ?_, ?_, ?_, ?_, ?_⟩
  · intro q; rw [S q]; split
    · next e => subst e; exact ⟨by rw [F.self_eq, hself], by rw [F.n_eq, hn]⟩
    · exact I.self_n q
  · intro q hq hqm k x hx
    rw [S q] at hx
    split at hx
    · next e => subst e; exact ids_ok' k x hx
    · obtain ⟨a, b, d⟩ := I.ids_ok q hq hqm k x hx
      exact ⟨a, b, fun h1 h2 => hmono _ _ (d h1 h2)⟩
  · intro q k; rw [S q]; split
    · exact F.nodup_keep k (I.nodup p k)
    · exact I.nodup q k
  · intro q k pay hm; rw [S q] at hm; split at hm
    · exact m_ok' k pay hm
    · exact I.m_ok q k pay hm
  · -- J
    intro q k hk
    rw [S q]
    rcases (H q _).mp hk with h | ⟨rfl, h⟩
    · split
      · next e =>
        subst e
        rcases I.J _ k h with h' | h'
        · exact Or.inl (F.pins_mono _ _ h')
        · rw [(F.halted_stuck h').1]; exact Or.inr h'
      · exact I.J q k h
    · simp only [if_true]
      exact (F.ack_out k h).2
  · -- A
    intro q pay k hk
    rw [S q]
    rcases (H q _).mp hk with h | ⟨rfl, h⟩
    · split
      · next e => subst e; exact F.pins_mono _ _ (I.A _ pay k h)
      · exact I.A q pay k h
    · simp only [if_true]; exact (del' pay k h).1
  · -- K
    intro q pay k hk
    rcases (H q _).mp hk with h | ⟨rfl, h⟩
    · obtain ⟨a, b⟩ := I.K q pay k h
      exact ⟨a, fun x hx h1 h2 h3 => hmono _ _ (b x hx h1 h2 h3)⟩
    · obtain ⟨_, b, _, d⟩ := del' pay k h
      exact ⟨b, d⟩
  · -- agreement
    intro q q' pay pay' k k' hk hk' es er
    -- helper: a new delivery at p against an old delivery anywhere
    have new_old : ∀ pay k x pay' k', Out.deliverB pay k ∈ (receive (σ.st p) msg src).2 →
        (x, Out.deliverB pay' k') ∈ σ.hist → k.s = k'.s → k.r = k'.r → k.d = k'.d := by
      intro pay k x pay' k' hnew hold es er
      obtain ⟨d1, d2, d3, _⟩ := del' pay k hnew
      have hpin_old : (σ.st p).pinned (k'.s, k'.r) = some k'.d := by
        by_cases hx : x = p
        · subst hx; exact I.A _ pay' k' hold
        · obtain ⟨_, b⟩ := I.K x pay' k' hold
          have hack := b p hpm (by rw [← es]; exact d2) (fun e => hx e.symm) hp
          rcases I.J p k' hack with h | h
          · exact h
          · rw [d3] at h; cases h
      have := F.pins_mono _ _ hpin_old
      rw [← es, ← er, d1] at this
      exact Option.some.inj this
    rcases (H q _).mp hk with h | ⟨rfl, h⟩ <;> rcases (H q' _).mp hk' with h' | ⟨rfl, h'⟩
    · exact I.agree q q' pay pay' k k' h h' es er
    · exact (new_old pay' k' q pay k h' h es.symm er.symm).symm
    · exact new_old pay k q' pay' k' h h' es er
    · have a := (del' pay k h).1
      have b := (del' pay' k' h').1
      rw [es, er, b] at a
      exact (Option.some.inj a).symm

theorem reach_inv (c : Cfg) (hnd : c.members.Nodup) {σ : Sys} (h : Reach c σ) : Inv c σ := by
  induction h with
  | init => exact inv_init c
  | step _ p src msg hp hpm hsrc hauth ih => exact inv_step c hnd ih p src msg hp hpm hsrc hauth

/-- C02 at the receiver level: whatever corrupted members and outsiders send, in whatever order
things arrive, two honest deliveries for the same sender and round carry the same digest. -/
theorem agreement (c : Cfg) (hnd : c.members.Nodup) {σ : Sys} (h : Reach c σ)
    (p q : Id) (pay pay' : Pay) (k k' : Key)
    (h1 : (p, Out.deliverB pay k) ∈ σ.hist) (h2 : (q, Out.deliverB pay' k') ∈ σ.hist)
    (es : k.s = k'.s) (er : k.r = k'.r) : k.d = k'.d :=
  (reach_inv c hnd h).agree p q pay pay' k k' h1 h2 es er


end TSSVerif.Model.Rbc
