import TSSVerif.Driver.Wire
import TSSVerif.Driver.Rbc
import TSSVerif.Driver.Classify
import TSSVerif.Driver.Sss
import TSSVerif.Driver.Box
import TSSVerif.Driver.BoxConc
import TSSVerif.Driver.Adapter
import TSSVerif.Driver.Translate
import TSSVerif.Driver.Orch
import TSSVerif.Driver.Disc
import TSSVerif.Driver.Net
import TSSVerif.Driver.Dkg
/-!
Line-protocol driver: one operation per input line, one answer per output line. Imports `Model/`
and `Driver/` only (core Lean), so it links as a native executable; the definitions it runs are the
ones the theorems in `Props/` are about.
-/
open TSSVerif.Driver

structure DState where
  rbc : Nat → Option RbcD := fun _ => none
  box : Option BoxD := none
  boxc : Option BoxCD := none
  orch : OrchD := {}
  disc : DiscD := {}
  dkg : DkgD := {}

def step (st : DState) (line : String) : DState × String :=
  let toks := (line.splitOn " ").filter (· ≠ "")
  match toks with
  | "wire" :: rest => (st, (wireOp rest).getD "bad-op")
  | "orch" :: rest =>
    match orchOp st.orch rest with
    | some (d, o) => ({ st with orch := d }, o)
    | none => (st, "bad-op")
  | "ds" :: rest =>
    match discOp st.disc rest with
    | some (d, o) => ({ st with disc := d }, o)
    | none => (st, "bad-op")
  | "dkg" :: rest =>
    match dkgOp st.dkg rest with
    | some (d, o) => ({ st with dkg := d }, o)
    | none => (st, "bad-op")
  | "net" :: rest => (st, (netOp rest).getD "bad-op")
  | "tr" :: rest => (st, (trOp rest).getD "bad-op")
  | "adp" :: rest => (st, (adpOp rest).getD "bad-op")
  | "boxc" :: rest =>
    match boxcOp st.boxc rest with
    | some (d, o) => ({ st with boxc := d }, o)
    | none => (st, "bad-op")
  | "box" :: rest =>
    match boxOp st.box rest with
    | some (d, o) => ({ st with box := d }, o)
    | none => (st, "bad-op")
  | "sss" :: rest => (st, (sssOp rest).getD "bad-op")
  | "cls" :: rest => (st, (clsOp rest).getD "bad-op")
  | "rbc" :: inst :: rest =>
    match inst.toNat? with
    | none => (st, "bad-op")
    | some i =>
      match rbcOp (st.rbc i) rest with
      | some (d, o) => ({ st with rbc := fun j => if j = i then d else st.rbc j }, o)
      | none => (st, "bad-op")
  | _ => (st, "bad-op")

partial def loop (h : IO.FS.Stream) (out : IO.FS.Stream) (st : DState) : IO Unit := do
  let line ← h.getLine
  if line.isEmpty then return ()
  let line := String.ofList (line.toList.filter (fun c => c ≠ '\n' ∧ c ≠ '\r'))
  let (st', o) := step st line
  out.putStrLn o
  loop h out st'

def main : IO Unit := do
  let stdin ← IO.getStdin
  let stdout ← IO.getStdout
  loop stdin stdout {}
