-- Root of the `TSSVerif` library.
import TSSVerif.Model.Wire
import TSSVerif.Model.WireDisc
