-- Root of the `TSSVerif` library.
import TSSVerif.Model.Wire
