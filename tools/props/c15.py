from vlib import Check

TRUSTED = [
    "tie (T), added: the statement lists of the functions this property's model was transcribed from are regenerated from /repo on every run (Gen/Stmts.lean) and pinned against the committed transcription source by the kernel-decided theorem source_as_modelled; the step from statements to model is by reading and is what the differential runs check",
    "Lean 4.33.0 kernel; axioms of every theorem audited",
    "hand-written model Model/Box.lean of msg/msgbox.go (critical sections of storeOrForward, Send, mark, sweep; whole calls composed sequentially), tied step-exactly incl. a size snapshot after every call by the harness component box (real msg.Box, injected ticker as virtual epoch clock)",
    "extractor 'boxconsts': limitPerSender and the comparison operators the model hard-codes, regenerated from the Go AST",
    "driver-level compaction of the function-valued maps (extensionally the identity)",
]
ASSUME = [
    "sequential histories (one call at a time); interleavings are C14's subject",
    "the ticker is the only clock (epochs); 'expired' means collected by a mark-and-sweep, which runs during a Send at most once per expiry period — until then expired topics still count against their sender",
    "the size snapshot hook (build tag verif) reads the tables under the box lock",
]

def main():
    c = Check("C15")
    c.prove(gen=["boxconsts", "stmts"])
    c.correspond("box")
    return c.finish(
        rule="histories from a grammar over a virtual epoch clock: arrivals from 3 senders on 8 topics, a well-behaved sender kept within the limits by the harness, sends, ticks, bursts of 95..110 messages across the "
             "per-sender limit (100), floods of maxTopics+3 topics, idle stretches of 2*expiry+2 epochs followed by a Send; MaxInFlightTopicsBySender in 1..4, expiry in 2..4 epochs. After every call the "
             "implementation's events and table sizes (pending topics, buffered messages, started topics, in-flight topics, epoch, lastGC) are compared with the model's. Direct monitors: no panic when shedding, "
             "every message of the within-limit sender handed over when its topic starts, nothing buffered before an idle stretch survives the next Send, in-flight bound. Non-trivial = every call.",
        trusted=TRUSTED, assumptions=ASSUME)
