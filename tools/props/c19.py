from vlib import Check

TRUSTED = [
    "Lean 4.33.0 kernel (finite tables decided with `decide +kernel`, no extra axiom); axioms audited",
    "extractor 'adapter': msgURL2Round / broadcastMessages literals, the round adjustment, the OnMsg/Sign comparisons of both adapters, and the (type, IsBroadcast) pairs of every New*Message constructor in the tss-lib version pinned by the adapters' go.mod (read from the module cache)",
    "harness component adapter: complete EdDSA (quick) and ECDSA (thorough) key generation + signing runs with every emitted message captured together with the library's routing flag",
]
ASSUME = [
    "type URLs are type.googleapis.com/binance.tsslib.<alg>.<phase>.<Type> (checked against the URLs of the captured messages)",
    "the embedded sender is the identity the adapter itself passes to ParseWireMessage, so the mismatch branch of OnMsg is unreachable through the wire format: sender_mismatch_dropped is about the function; the transport-authenticated sender is what the library sees",
    "tss-lib protocol rounds themselves are not modelled",
]

def main():
    c = Check("C19")
    c.prove(gen=["adapter"])
    c.correspond("adapter", timeout=3000)
    return c.finish(
        rule="Also: the captured message types classified concurrently (8 goroutines) on one instance; hashToInt against a reference written from the standard; the same adapter objects re-initialised with another party list ({1,2,3} then {2,3}); thorough: ECDSA signing of 20/28/32/48-byte digests verified with crypto/ecdsa. complete runs for (n,t) in {(2,1),(3,1),(3,2)} EdDSA (quick) plus (4,2) EdDSA and (2,1),(3,1) ECDSA (thorough): every captured message is classified by a fresh receiver and compared with the library's "
             "IsBroadcast flag (direct monitor) and, once per type URL, with the model's table look-up; 300 garbage byte strings into ClassifyMsg/OnMsg under a panic guard; hashToInt on digests of every length 0..64 "
             "(random, all-ones) against the model. Non-trivial = distinct type URLs and digests.",
        trusted=TRUSTED, assumptions=ASSUME)
