from vlib import Check

TRUSTED = [
    "Lean 4.33.0 kernel; axioms of every theorem audited",
    "hand-written model Model/Net.lean (encodeFrame, readMsg, readAll, SendSt) of net/net.go remoteParty.send / readMsg / handleConn / SocketRemoteParties.Send / sendMessages, tied two ways: (T) size limit, the comparison that enforces it, "
    "the topic-carrying types, the header layout on both sides and every panic site of the sending side are regenerated from the source on every run (Gen/Net.lean) and asserted by a kernel-decided theorem; "
    "(D) the real writer on a real TLS connection and the real reader on chunked streams are compared with the model byte for byte",
]
ASSUME = [
    "TCP, the TLS record layer and Go channels deliver bytes / values in order (the queue is modelled as a FIFO list with atomic enqueue and dequeue)",
    "real time is outside the model: 'slow' is 'the queue stays full'; a Send to a destination whose queue is full still blocks its caller for the ten-second time-out per message (observation), after which the message is dropped",
    "a message taken from the queue when the connection fails is lost, not resent (modelled as Ev.fail / SOut.lost; the property's 'exactly once' is read for connections that stay up)",
    "illegal type/topic combinations are outside the statement: the writer panics on a topic of a length other than 0 or 32, and a topic-less frame of a topic-carrying type (or the converse) desynchronises the stream (sampled as 'illegal-combination')",
]

def main():
    c = Check("C17")
    c.prove(gen=["net"])
    c.correspond("frame")
    return c.finish(
        rule="first-send-race: 300 (1200; fewer under a low descriptor limit) trials of eight goroutines making the first send to a fresh destination at the same moment; burst-order: 2500 frames from one goroutine to a fresh destination (outgoing queue of 1000); boundary lengths: every payload length within -45..+5 of every power of two 2^5..2^17 (2^21), with and without topic. (enc) 150 (1500) legal frames of types 0,1,2,3,4,255 and payload sizes 0,1,31,32,33,255,256,1000 and random, plus 65535, 65536, 2^20 (thorough: limit-1, limit) written by the real remoteParty.send on a real TLS connection, "
             "compared byte for byte (large: header + SHA-256); topics of length 1,31,33,64 must be refused. (read) 600 (8000) streams through the real readMsg in random chunks: well-formed, truncated, random, illegal combinations, "
             "announcing limit+1.. and ~4 GiB, with and without following frames; boundary table: 4 types x 11 announced sizes around 0, 64 KiB, 1 MiB, the limit and 2^32-1 x 4 amounts of following data, by header. "
             "(live) four real parties on loopback TLS, 1-8 sending goroutines per party x 25 messages of sizes 0..70000 to all others, scenarios healthy / one peer down / one stalled (accepts TCP, never answers) / one garbling "
             "(authenticates, then sends a 4 GiB header, a truncated frame or noise): per sending goroutine and receiver exactly once, in order, unmodified, attributed to the sender; everything among the healthy peers arrives; "
             "then 1001 messages to {reachable, unreachable}: the Send that finds the dead peer's queue full gives up after its time-out without a panic (recorded failure F28) and the reachable peer receives all 1001. "
             "Non-trivial = every compared line plus every live scenario.",
        trusted=TRUSTED, assumptions=ASSUME)
