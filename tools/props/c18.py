import os, re
from vlib import Check, REPO

TRUSTED = [
    "Lean 4.33.0 kernel + the Mathlib v4.33.0 modules imported by Proofs/SssAlgebra.lean (LinearAlgebra.Lagrange, FieldTheory.Finite.Basic); axioms audited",
    "hand-written executable model Model/Sss.lean of sss.go / choose.go under IBM/mathlib's Zr semantics, tied byte-exactly (scalars as decimal strings, the real BN254 group order) by the harness component sss to both copies (mpc/bls, mpc/ps)",
    "textual identity of the two copies of sss.go and choose.go modulo the package clause (checked on every run)",
]
ASSUME = [
    "the group order of BN254 is prime (hypothesis `Fact p.Prime` of the executable-model theorems; the algebraic theorems hold over every field)",
    "IBM/mathlib + gnark-crypto implement a module over that field (group level is exercised through localCreatePublicKeys / localAggregatePublicKeys on the real curve, not modelled)",
    "Zr.InvModP on an invertible argument equals the Fermat inverse (math/big.ModInverse)",
]

def copies_identical(c):
    for f in ("sss.go", "choose.go"):
        a = open(os.path.join(REPO, "mpc/bls", f)).read()
        b = open(os.path.join(REPO, "mpc/ps", f)).read()
        na = re.sub(r"^package \w+$", "package X", a, flags=re.M)
        nb = re.sub(r"^package \w+$", "package X", b, flags=re.M)
        if na != nb:
            c.proof_ok = False
            c.broken.append(f"mpc/bls/{f} and mpc/ps/{f} are no longer identical modulo the package clause: the model covers one definition; both copies are still run differentially")

def main():
    c = Check("C18")
    c.prove(gen=[])
    copies_identical(c)
    c.correspond("sss")
    c.correspond("dkgstep")
    return c.finish(
        rule="both copies (mpc/bls, mpc/ps): chooseKoutOfN for all n <= 10 (16 thorough), k <= n+1; lagrangeCoefficient for every subset S of {1..n}, n <= 6 (9), every i in S incl. the panicking singletons; "
             "ValueAt for every share of PRNG-dealt polynomials (real SSS.Gen with a recorded random stream) for all 2 <= t <= n; reconstruct for all subsets of size >= 2 (sampled after the first polynomial). "
             "Scalars compared as decimal strings modulo the real BN254 order. Group level on the real curve: aggregated public keys of every subset of size >= t equal GenG2*secret; "
             "The cross-check inside the real KeyGen (assembleThresholdPublicKey of both backends, statements pinned) is exercised by the lockstep component dkgstep: fault-free runs with party identifiers 1..n, "
             "from the corners of the 16-bit range and in permuted order must be accepted; a run whose only deviation is one share off its dealer's polynomial (t < n) must be rejected. "
             "t-subset cross-check accepts on-polynomial keys and detects an off-polynomial key for every party index (t < n). Non-trivial = distinct operation lines except degenerate choose(n,k) with k outside 1..n.",
        trusted=TRUSTED, assumptions=ASSUME)
