from vlib import Check

TRUSTED = [
    "tie (T), added: the statement lists of the functions this property's model was transcribed from are regenerated from /repo on every run (Gen/Stmts.lean) and pinned against the committed transcription source by the kernel-decided theorem source_as_modelled; the step from statements to model is by reading and is what the differential runs check",
    "Lean 4.33.0 kernel; axioms of every theorem audited to be within {propext, Classical.choice, Quot.sound}",
    "hand-written models Model/Rbc.lean (rbc.Receiver), Model/Dispatch.lean (handleMPC/handleAck/handleRBC/rbcMsg.Ack/rbcFilter/threadSafeRBC) — tied step by step by the harness components rbc, rbcsys (real rbc.Receiver instances) and disp (real Scheme.HandleMessage with an open session)",
    "wire expressions regenerated from the Go AST (Gen/Wire.lean, see C13)",
    "Go harness, the deterministic in-memory network of rbcsys, the Lean driver's line parsing",
]
ASSUME = [
    "the transport authenticates the source of every message (C16): bytes attributed to an honest member were put on the wire by that member",
    "SHA-256 is a parameter H: agreement is 'equal payloads or an explicit collision of H'",
    "honest members run the same deterministic classifier; its rounds fit in 7 bits (C19 / rounds of the built-in backends)",
    "one message at a time per instance (threadSafeRBC's mutex; lock discipline is C20's subject)",
]

def main():
    c = Check("C02")
    c.prove(gen=["wire", "stmts"])
    c.correspond("rbcsys")
    c.correspond("rbc")
    c.correspond("disp")
    return c.finish(
        rule="rbcsys: sessions of 3..5 real receivers, 1..N-2 corrupted members driven by a strategy catalogue (equivocate, equivocate+collude, early acks, partial send, "
             "mostly honest, random) with PRNG arrival order and duplication; rbc: single receiver under mostly-valid scripts with deviations and an unstructured stream; "
             "disp: real Scheme.HandleMessage with structure-aware byte mutations. A case = one distinct operation line fed to both model and implementation; "
             "non-trivial = every line except session set-up. Direct monitor: pairwise comparison of broadcast-class hand-overs across honest parties.",
        trusted=TRUSTED, assumptions=ASSUME)
