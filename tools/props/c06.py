from vlib import Check

TRUSTED = [
    "tie (T), added: the statement lists of the functions this property's model was transcribed from are regenerated from /repo on every run (Gen/Stmts.lean) and pinned against the committed transcription source by the kernel-decided theorem source_as_modelled; the step from statements to model is by reading and is what the differential runs check",
    "Lean 4.33.0 kernel; axioms of every theorem audited",
    "hand-written model Model/Translate.lean of computeMembership / partyIDsByUniversalIDs / universalIDsByPartyIDs and their use in runDKG, prepareSigning, initializeDKG, initializeThresholdSigning; tied by the harness component translate "
    "(real Scheme.KeyGen and Scheme.Sign with a scripted synchroniser that returns the agreed list and a scripted backend that records Init/OnMsg and emits addressed sends)",
]
ASSUME = [
    "the agreed list comes from the synchroniser (C07); the transport authenticates sources (C16)",
    "Go's sort.Sort on distinct identifiers equals any correct sort (the model uses insertion sort)",
    "observation, outside the statement: KeyGenFactory/SignerFactory are called with the node identifier of the local node; a backend that derives its own party identifier from that argument only works with identity maps",
]

def main():
    c = Check("C06")
    c.prove(gen=["stmts"])
    c.correspond("translate")
    return c.finish(
        rule="membership maps of six kinds (identity, shift by 10, permutation, 1-2 replicas per party, 1-3 replicas per party, random 16-bit party ids on nodes near 65000) x agreed lists with one replica per party and, one time in six, "
             "two replicas of one party (must be refused) x KeyGen and Sign: the Init argument (or the refusal), the OnMsg sender for a point-to-point frame from every other agreed node, and the Send destination for a message "
             "addressed to every party of the session and to one random party outside it are compared with the model; direct monitor: exactly one destination, a node of the session representing the addressed party. Non-trivial = every compared line.",
        trusted=TRUSTED, assumptions=ASSUME)
