from vlib import Check

TRUSTED = [
    "Lean 4.33.0 kernel; axioms of every theorem audited",
    "panic-aware models: Model/Wire.lean (decoders, regenerated guards), Model/Dispatch.lean + Model/Rbc.lean (dispatcher path), Model/Classify.lean (regenerated tables), Model/PsShape.lean (PS request/proof shapes)",
    "extractor 'sites': census of index/slice/assert/panic/send sites in the input-handling functions, regenerated from the Go AST; hand-maintained table Model/SiteTable.lean",
    "Go harness component fuzz (structure-aware mutation of captured valid messages in every session state), plus wire/disp/rbc/classify correspondence runs",
]
ASSUME = [
    "encoding/asn1, protobuf, crypto/x509, encoding/pem are total; IBM/mathlib point parsing recovers internally (exercised by the fuzz runs, not modelled)",
    "tss-lib does not panic on parsed-but-inconsistent messages; the adapters' OnMsg cannot block only while their KeyGen/Sign loop drains the channel (partial)",
    "a panic inside a goroutine the harness does not own kills the harness process: that is reported as a violation with the process output as replay",
    "local preconditions (configured message length >= 0, own key material of the right arity, transport never attributes a message to the node itself) are not peer input",
]

def main():
    c = Check("C10")
    c.prove(gen=["wire", "classify", "sites"])
    c.correspond("fuzz")
    c.correspond("wire")
    c.correspond("disp")
    c.correspond("rbc")
    c.correspond("classify")
    c.correspond("auth")
    c.correspond("frame")
    c.correspond("dkgstep")
    return c.finish(
        rule="Also run here: auth (mutated handshakes through authenticateConnection / handleConn), frame (broken frames through readMsg, live peers down / stalled / garbling), silent-mode dispatcher states (idle, signing) and fuzzSilentQuota (a peer exceeding the buffer's topic and message quotas; the node must go on serving). fuzz: for every entry point (Scheme.HandleMessage in states idle/synchronising/protocol running/finished; disc.Member.HandleMessage idle/synchronising/finished incl. response bursts; "
             "ClassifyMsg/OnMsg of mpc/bls and mpc/ps initialised/finished; DKG runs with a participant sending mutated messages; TPS.Sign, ps.Verifier.Init/Verify, bls.Verifier.Init/Verify, SetShareData) "
             "valid messages captured from real runs are truncated (every length in thorough), extended, bit-flipped, given boundary first bytes, emptied, and ASN.1 objects are re-marshalled with lists of every "
             "wrong length and unparsable elements; message types 0,1,2,3,255 x topics of length 0,1,3,4,7,8,31,32,33. A case = one call under a panic/hang guard (5 s); distinct = distinct (entry point, input). "
             "wire/disp/rbc/classify: model-vs-implementation runs of C13/C02/C03/C04 (the model's panic outcome must coincide with the implementation's).",
        trusted=TRUSTED, assumptions=ASSUME)
