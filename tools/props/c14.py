from vlib import Check

TRUSTED = [
    "tie (T), added: the statement lists of the functions this property's model was transcribed from are regenerated from /repo on every run (Gen/Stmts.lean) and pinned against the committed transcription source by the kernel-decided theorem source_as_modelled; the step from statements to model is by reading and is what the differential runs check",
    "Lean 4.33.0 kernel; axioms of every theorem audited",
    "hand-written model Model/BoxConc.lean (threads cut at the yield points of msg/msgbox.go) on top of Model/Box.lean, tied step by step (events and stop reason of every scheduling step) by the harness component boxsched",
    "the yield hooks (build tag verif) sit where the running goroutine holds no lock; the controlled scheduler runs real goroutines one at a time and re-executes every schedule from scratch",
]
ASSUME = [
    "atomicity of a critical section = Go mutex semantics; the nested per-entry lock inside the box lock is folded into the enclosing step (the entry is reachable only through the box tables, which the box lock protects)",
    "in the Lean model of the interleaved box the epoch clock does not tick (no garbage collection step) and the scenarios stay within the limits; on the real code the controlled scheduler also runs three scenarios in which the clock ticks inside a running collection (gc-window/*) and two histories of six successive topics (sequential-topics*), judged by the direct monitors only",
    "per-sender order is NOT claimed for every interleaving: known finding KF-C14-order",
]

def main():
    c = Check("C14")
    c.prove(gen=["boxconsts", "stmts"], modules=["TSSVerif.Props.C14", "TSSVerif.Props.C14Order"])
    c.correspond("boxsched")
    return c.finish(
        rule="controlled scheduler over the real msg.Box: 7 scenarios (1-3 receiving threads with 1-2 messages each, 1-2 sending threads, same and different topics); stateless depth-first enumeration of ALL "
             "schedules where the space is small (flag exhaustive/<scenario> in extra), otherwise the first 4 000 (400 000 thorough) in DFS order; every complete schedule is checked by the direct monitor "
             "(lost / duplicated / reordered hand-overs), one in 97 is also replayed step by step on the Lean model. Evaluations = complete schedules + model steps; non-trivial = every model step line.",
        trusted=TRUSTED, assumptions=ASSUME)
