from vlib import Check

TRUSTED = [
    "Lean 4.33.0 kernel; axioms of every theorem audited",
    "hand-written model Model/Net.lean (authenticate, serve) of net/net.go authenticateConnection / handleConn, tied two ways: (T) the rejecting conditions in source order, the blanked signature field, the bytes the signature is "
    "verified over, the table key and the accepting return are regenerated from the source on every run (Gen/Net.lean) and a kernel-decided theorem asserts they are the modelled ones; (D) the real functions run on real TLS 1.3 "
    "connections with mutated handshakes, outcome and rejecting stage compared with the model",
    "the harness computes the environment facts (decodes, binding equal, PEM, x509, key type, re-marshals, signature verifies, table entry) with the Go standard library, independently of authenticateConnection",
]
ASSUME = [
    "cryptography: ECDSA signatures are unforgeable, the TLS 1.3 exporter value is unique to a connection, SHA-256 is collision-free; crypto/tls, crypto/x509, encoding/pem, encoding/asn1 are correct",
    "the model's environment is a parameter: the theorems hold for every behaviour of these libraries; what they say about a concrete handshake is measured, not modelled",
    "observations outside the statement: the handshake's time stamp is only logged; a connection that fails authentication is not closed by handleConn; bytes of the handshake buffer after the ASN.1 value are ignored",
]

def main():
    c = Check("C16")
    c.prove(gen=["net"])
    c.correspond("auth")
    return c.finish(
        rule="500 (6000) real TLS 1.3 connections over loopback, five registered ECDSA identities under four domains plus a registered RSA and a registered Ed25519 identity; from a valid handshake: binding flipped (and re-signed) / empty, "
             "a complete handshake recorded on another connection, another registered identity signed with the own key, unregistered identity correctly signed, RSA / Ed25519 / P-384 identities, not PEM, PEM of garbage, signature missing / "
             "flipped / by another registered key / over another domain, other domain correctly signed, truncated encoding, random bytes, Domain as T61String with invalid UTF-8 (recorded failure F27), Domain as other string types, "
             "old time stamp, domain/identity boundary shifted, trailing bytes, length prefix reaching into the first frame; one third through handleConn with a marker frame (what appears on the channel), the rest through "
             "authenticateConnection; outcome and rejecting stage compared with the model; direct monitor: attribution only with all facts. Non-trivial = every case.",
        trusted=TRUSTED, assumptions=ASSUME)
