from vlib import Check

TRUSTED = [
    "Lean 4.33.0 kernel; axioms of every theorem audited to be within {propext, Classical.choice, Quot.sound}",
    "extractor /verif/go/cmd/extract (wire): go/parser + a 150-line typed translation of Go unsigned integer expressions to BitVec terms; unknown shapes fail closed",
    "Go harness cmd/harness wire + the Lean driver's hex parsing (correspondence of the list plumbing around the regenerated expressions)",
    "encoding/asn1 (stored data / public parameters containers) is exercised, not modelled",
]
ASSUME = [
    "SHA-256 and HMAC-SHA256 are parameters: the theorems state injectivity of the bytes fed to them",
    "ASN.1 container round trip of StoredData / PublicParams is a tested assumption (real Marshal/Unmarshal over boundary identifiers)",
]

def main():
    c = Check("C13")
    c.prove(gen=["wire"])
    c.correspond("wire")
    c.correspond("asn1ids")
    c.correspond("idsession")
    return c.finish(
        rule="idsession: whole sessions (key generation + two-of-three signing through real Schemes, synchroniser, reliable broadcast, BLS backend) with node = party identifiers {0,1,2}, {0,255,256}, {254,255,511}, {32767,32768,65535}, {0,300,65535} against the control {1,2,3}. exhaustive over all 65 536 senders (x rounds x digests in thorough); views: all boundary singletons/pairs/triples over "
             "{0,1,254,255,256,257,511,512,32767,32768,65279,65280,65534,65535} plus PRNG views; arbitrary byte strings into both decoders; "
             "a case is one distinct operation line; all are non-trivial (each exercises encode+decode or a decoder guard)",
        trusted=TRUSTED, assumptions=ASSUME,
        extra_cov={"exhaustive": True, "explanation": "identifier space enumerated completely for acknowledgements; theorems cover all views"})
