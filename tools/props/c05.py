from vlib import Check

TRUSTED = [
    "tie (T), added: the statement lists of the functions this property's model was transcribed from are regenerated from /repo on every run (Gen/Stmts.lean) and pinned against the committed transcription source by the kernel-decided theorem source_as_modelled; the step from statements to model is by reading and is what the differential runs check",
    "Lean 4.33.0 kernel; axioms of every theorem audited",
    "hand-written model Model/Dkg.lean (party: OnMsg first-value-wins tables, wait loops, combineShares, commit / reveal, validateCommitments, all-subsets check; session: honest parties on a broadcast layer that hands every honest receiver the same bytes per sender) "
    "tied by the harness component dkgstep: a real TBLS / TPS party driven in lockstep through the park hooks of its three wait loops, the other participants played by real backends whose traffic passes through the harness",
    "the facts the curve contributes are measured, not modelled: well-formedness of a payload (by construction), SHA-256 of every key, whether all C(n,t) interpolations of the final table coincide (by construction: t = n, or no substituted share / key arrived first)",
]
ASSUME = [
    "the broadcast layer delivers, for each sender, the same commitment and the same key to every honest receiver, at most once, and for an honest sender what it sent (C02 agreement, C03); the orchestrator forwards only traffic of the session's members (C03 outsiders_inert) and never a party's own messages",
    "SHA-256 commitments are hiding and binding: the theorems speak about order of events and equality checks, not about what an adversary can compute",
    "'shares that can jointly sign under the reported key' is Props/C01 checked_sets_sign: from the all-subsets check alone (no polynomial assumed), for every set of at least t parties that hold the shares their recorded keys belong to (sets of exactly t directly, larger sets by Neville's recursion, Proofs/SubsetCheck.check_extends)",
]

def main():
    c = Check("C05")
    c.prove(gen=["stmts"])
    c.correspond("dkgstep")
    return c.finish(
        rule="60 (900) lockstep runs, alternating BLS / PS, n 2..5, every 2 <= t <= n, the party under test chosen at random; one run in four fault-free with arbitrary delivery order, the others with, per delivered message, one of: a duplicate of an earlier "
             "message first, a substituted value first (another participant's share = off the polynomial; random commitment; another participant's key = not matching the commitment) followed by the real one, junk (empty, unknown tag, a key that is "
             "not a point, tag 0) in between, the message withheld for good, as sent; cancellation after a random number of steps or when nothing is left. Every OnMsg and every run of the KeyGen goroutine (wake-up to park / return) is compared with "
             "the model: what is emitted (commitment, key, result) and when. Monitors: the key is disclosed only when commitments of all n-1 others were handed over; completers report identical public material; their shares sign under it (BLS). "
             "Non-trivial = every compared line.",
        trusted=TRUSTED, assumptions=ASSUME)
