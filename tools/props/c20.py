from vlib import Check

TRUSTED = [
    "Lean 4.33.0 kernel; axioms of every theorem audited",
    "the lock-set extractor (go/cmd/extract locks): per function, in statement order, from Lock / RLock / Unlock / RUnlock / defer; nested blocks with a copy; function literals start empty (except the argument of registerWhileActive, which runs under Scheme.lock); "
    "unexported methods inherit the intersection of their call sites. It sees accesses through the method receiver only (not through local copies of pointers or interfaces) - kept honest by the race-detector runs",
    "the protection map and the justifications of the classes that need no mutex (tools/mk_locktable.py -> Model/LockTable.lean), by reading: init-phase (before the object is registered / under sync.Once), configuration, frozen-after-init, "
    "frozen-complete (the key table after all n keys arrived), sync.Map, atomic, confined to the API caller, api-sequenced, externally serialised by threadSafeRBC",
]
ASSUME = [
    "Go's sync.Mutex / RWMutex / Once / atomic / sync.Map provide the happens-before edges of the Go memory model; the lock machine of Model/Locks.lean abstracts them",
    "the API is used as documented: Init before the backend is registered, SetShareData / SetStoredData before signing sessions, one KeyGen at a time per backend object",
    "a theorem cannot observe the runtime: the race detector (works offline here) is the search for a concrete failing schedule and a standing cross-check of the extractor, never the decision; it only sees the schedules that occur",
]

def main():
    c = Check("C20")
    c.prove(gen=["locks"])
    c.correspond("race")
    c.race("race")
    return c.finish(
        rule="(table) every read / write of a field of Scheme, TBLS, TPS, Box, storedMessages, Member, topicPeerView, Receiver, threadSafeRBC, threadSafeSync, SilentSynchronizer, membership through the method receiver, with the locks held: 316 rows, "
             "all compared with the committed table. (race detector) the harness built with -race: 12 (300) rounds x {BLS, PS} backends with 3-5 parties, one dispatcher goroutine per link, a replayer per party spinning on duplicates, out-of-phase copies "
             "and an early well-formed key; 12 (300) rounds x {loud, silent} full stacks of 3 real Schemes with one dispatcher goroutine per link, KeyGen, then two signing sessions at once per signer, duplicates of earlier traffic re-injected concurrently. "
             "Every report of the detector is a violation with both stacks as replay. The same workload runs in the ordinary build. Non-trivial = every run.",
        trusted=TRUSTED, assumptions=ASSUME)
