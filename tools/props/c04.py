from vlib import Check
from props.c02 import TRUSTED, ASSUME

def main():
    c = Check("C04")
    c.prove(gen=["wire", "classify", "stmts"])
    c.correspond("rbcfair")
    c.correspond("classify")
    c.correspond("disphonest")
    return c.finish(
        rule="disphonest: fault-free dispatcher-level sessions over the real acknowledgement / payload encodings with corner identifiers, every message delivered in random order: every broadcast handed over exactly once at every other participant, every point-to-point message exactly once at its addressee, at quiescence. rbcfair: N in 2..5 real receivers, all honest, workloads with several concurrent senders, up to two consecutive rounds and point-to-point messages; every message delivered exactly once in an order "
             "drawn by the PRNG under one of six biases (uniform, acknowledgements first, acknowledgements last, one party starved, LIFO, later round first); plus EVERY delivery order of N=3/one sender and "
             "N=2/two senders/two rounds (re-executed from scratch per order). Each delivery is one operation line diffed against the model; at quiescence the direct monitor counts hand-overs per "
             "(party, sender, round, payload) and probes every party for a false equivocation verdict. classify: real ClassifyMsg of mpc/bls and mpc/ps on every first byte. "
             "Non-trivial = every delivery line and every complete order.",
        trusted=TRUSTED + ["extractor 'classify': ClassifyMsg switch tables of mpc/bls and mpc/ps regenerated from the Go AST (iota constants resolved)"],
        assumptions=ASSUME + ["exactly-once delivery by the transport and eventual delivery (fairness) are the hypotheses of the statement; the theorem shows quiescence is reached within a computed number of deliveries",
                              "each honest backend broadcasts at most one message per round (distinct (sender, round)); for the built-in backends this follows from the regenerated tables (builtin_broadcast_rounds_distinct) and one message per type"])
