from vlib import Check

TRUSTED = [
    "Lean 4.33.0 kernel; axioms of every theorem audited",
    "hand-written algebraic model Model/PsAlgebra.lean: one definition per Go function (Blind, commit, encrypt, proveBlindingIsWellFormed, BlindCorrectFormProof.Verify, SignBlindSignature, UnBlind, PoKofSig, "
    "proveProofOfKnowledgeOfSignatureIsCorrectlyFormed, PoKofSignaturePoCorrectForm.Verify/checkcommitmentForm, SigPoK.Verify, ProveKnowledgeOfSignature), transcribed from the functions' arithmetic statements; "
    "tie (T): those statements are regenerated from the source on every run (Gen/Ps.lean) and a kernel-decided theorem asserts they equal the committed transcription source (Model/PsEquations.lean); "
    "the step from statement list to Lean definition is by reading (X.Mul(s) = s • X, X.Add(Y) = X + Y, Plus/Mul on scalars, Pairing2(a,b,c,d) = e(b,a)·e(d,c))",
    "tie (D): the real flow (real DKG, Blind, Sign, UnBlind, ProveKnowledgeOfSignature, Verify) runs for every listed configuration and must succeed wherever the theorems say it does",
]
ASSUME = [
    "the groups are modules over the prime scalar field and the pairing is bilinear (IBM/mathlib + the curve library); hashing to the field / to G1 is a function",
    "a party's evaluation point is its position in the party list + 1, in the DKG and (since fix F31, e1370e5) in the prover; party identifiers are arbitrary (one run in three draws them from the corners of the 16-bit range)",
    "the key sharing comes from the DKG (C05/C18): each of x, y_i is shared by a polynomial of degree < t",
]

def main():
    c = Check("C08")
    c.prove(gen=["ps"])
    c.correspond("psflow")
    return c.finish(
        rule="real PS DKG with a random delivery schedule for (n,t,l) in (2,2,1) (3,2,2) (3,3,1) (4,3,2) (4,2,3) (5,3,2) [thorough: + (4,2,4) (5,3,3) (5,5,1) (5,4,8) (6,4,2) (7,4,1) (8,5,2)]; identical public material at every party; "
             "four message vectors each (random entries, all empty, all equal, 300-byte entries) x all signer subsets of size t, the full set and two random larger ones (first vector; three subsets for the others): "
             "Blind, every signer's Sign, UnBlind under that signer's key, ProveKnowledgeOfSignature, Verifier.Verify must all succeed. The same run carries the C09 alterations. Non-trivial = every distinct flow / alteration.",
        trusted=TRUSTED, assumptions=ASSUME)
