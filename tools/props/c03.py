from vlib import Check
from props.c02 import TRUSTED, ASSUME

def main():
    c = Check("C03")
    c.prove(gen=["wire", "stmts"])
    c.correspond("rbc")
    c.correspond("disp")
    c.correspond("rbcsys")
    c.correspond("disphonest")
    return c.finish(
        rule="disphonest: fault-free dispatcher-level sessions of real Schemes with scripted backends over the real encodings (identifier sets {1,2,3}, {5,44,300}, {0,255,256,65535}, ..., every third with a rotated node->party map): what is handed over is attributed to the party of the authenticated source node. rbc: one real rbc.Receiver per session (N in 2..6) under mostly-valid scripts (direct copies + acknowledgements of all other members, shuffled) with injected deviations "
             "(self-acknowledgement, replay, conflicting digest, short digest, non-member, re-sent payload, attributed to self) and an unstructured stream; disp: the same through the real "
             "dispatcher with byte-level mutations and outsiders. A case = one distinct operation line; non-trivial = all but set-up lines. Direct monitors on the implementation's "
             "hand-over log with multiplicities: placeholder, duplicates per (sender, round), payload not received directly, outsider traffic with any effect, altered point-to-point.",
        trusted=TRUSTED, assumptions=ASSUME)
