from vlib import Check

TRUSTED = [
    "Lean 4.33.0 kernel; axioms of every theorem audited",
    "Model/PsAlgebra.lean (see C08) for the PS equations and blsVerify for mpc/bls/tbls.go localVerify; tie (T): arithmetic statements of the BLS and PS functions, the hashed-field lists of both Fiat-Shamir oracles and the aliasing census of every "
    "verifying / signing function are regenerated from the source on every run and compared by kernel-decided theorems; tie (D): every listed alteration runs against the real TPS.Sign / Prover.UnBlind / ps.Verifier.Verify / bls.Verifier.Verify",
]
ASSUME = [
    "unforgeability proper ('only if produced by >= t genuine shares') is a computational assumption (co-CDH / PS assumption in the random-oracle model) and is not claimed; what is proved is the algebraic content: verification is equivalent to an exact "
    "relation, each verification equation with an altered bound field holds for at most one value of the challenge, the challenge hashes exactly the bound fields, the request is checked before any share is applied",
    "the pairing is bilinear and non-degenerate at the generator of G2; SHA-256 / HashToZr behave as a random oracle for the 'at most one challenge' reading",
    "observations outside the statement: randomOracleForBlindingProof computes gs[i].Bytes() without writing them to the hash (public parameters, not bound); a proof of knowledge with fewer responses than key components is accepted as a statement about a message with trailing zeros; "
    "combining with a single evaluation point panics in the caller's own process (C18 exec_lagrange_panics_iff)",
]

def main():
    c = Check("C09")
    c.prove(gen=["ps"])
    c.correspond("psflow")
    return c.finish(
        rule="on honest objects from the C08 flows (six configurations; thorough thirteen): request - cm/u/s + g, doubled, from another session, z/x/y + 1, every a_i b_i d_i f_i + g, doubled, swapped with its sibling, from another session, the whole proof from "
             "another session (136+ per tier) -> TPS.Sign must refuse; partial signature - a/b + g, doubled, swapped, another signer's, another session's -> Prover.UnBlind must refuse; proof of knowledge - every group element + g / doubled / from another proof / "
             "swapped, every response + 1 or swapped, inner proof substituted -> Verifier.Verify must refuse; witnesses under swapped indices, an outsider's witness under an insider's index, fewer than t witnesses, another DKG's key; "
             "BLS - other digest, empty digest, every share + g / doubled, rotated signer list, outsider's share under an insider's index, t-1 shares, a single share as signature, another DKG's key. "
             "Purity: SignBlindSignature x3, UnBlind x2, SigPoK.Verify x3, bls Verify x2 on the same object: same verdict, encoding unchanged (recorded failure F29). Non-trivial = every distinct alteration.",
        trusted=TRUSTED, assumptions=ASSUME)
