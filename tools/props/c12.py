from vlib import Check

TRUSTED = [
    "tie (T), added: the statement lists of the functions this property's model was transcribed from are regenerated from /repo on every run (Gen/Stmts.lean) and pinned against the committed transcription source by the kernel-decided theorem source_as_modelled; the step from statements to model is by reading and is what the differential runs check",
    "Lean 4.33.0 kernel; axioms of every theorem audited",
    "hand-written model Model/Orch.lean (handler tables; one action = one acquisition of Scheme.lock; sessions = caller thread + callback thread), tied by the harness component orch: a real Scheme with a gated synchroniser and scripted "
    "backends is driven along every exit path (failed / late / passed first and second synchronisation, unusable share data, backend failure, success, caller giving up at each point), the table snapshot hook is compared with the model at every stable point",
]
ASSUME = [
    "distinct topics have disjoint derived keys sha256(t), sha256(sha256(t)) except by SHA-256 collision and except for the constructed pair of known finding KF-C12-derived-topic",
    "silent mode: the message box keeps a finished topic marked as started until it expires, so early messages of a later session on the same topic bypass the buffer: known finding KF-C12-silent-reuse, reproduced by component reuse on every run (the orch histories run in loud mode with a gated synchroniser)",
    "the participant filter and the dispatch path are C02/C03's subject",
]

def main():
    c = Check("C12")
    c.prove(gen=["stmts"], modules=["TSSVerif.Props.C12", "TSSVerif.Props.C12Box"])
    c.correspond("orch")
    c.correspond("reuse")
    return c.finish(
        rule="reuse: silent mode, full stack, n=2: a staggered Sign on a fresh topic (control), a first Sign on a topic, then a second, staggered Sign on the same topic (known finding KF-C12-silent-reuse). "
             "orch: histories of 3..7 calls on one real Scheme: KeyGen (1 in 4) and Sign on a pool of 3 topics, each driven along one of 5 (KeyGen) / 7 (Sign) exit paths chosen by the PRNG, with a second concurrent Sign on the same topic one time in three "
             "(must be refused and change nothing), late and foreign SYNC/MPC traffic after every session (must reach no backend), re-use of topics across the history (must be admitted). Each table action is one operation line; at every stable point "
             "the key sets of the three tables and dkgRunning are compared with the model. Plus the constructed derived-topic pair. Non-trivial = every action line.",
        trusted=TRUSTED, assumptions=ASSUME)
