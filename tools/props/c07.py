from vlib import Check

TRUSTED = [
    "tie (T), added: the statement lists of the functions this property's model was transcribed from are regenerated from /repo on every run (Gen/Stmts.lean) and pinned against the committed transcription source by the kernel-decided theorem source_as_modelled; the step from statements to model is by reading and is what the differential runs check",
    "Lean 4.33.0 kernel; axioms of every theorem audited",
    "hand-written model Model/Disc.lean of disc/discovery.go (Synchronize, intersectedView, myMemberViewSorted, HandleMessage and its three handlers, registration and tag table), tied by the harness component sync: "
    "(1) a real Member driven step by step through exported wrappers with a state snapshot after every step, (2) a real Synchronize goroutine driven in lockstep through the yield hooks so that every pass, evaluation, tick, "
    "confirmation and the result is compared with the model's phase machine, (3) real concurrent Synchronize goroutines over an in-process network with scripted corrupted members and in-window deliveries, with direct monitors",
    "Model/Wire.lean for the message encoding (tied by C13's regenerated guards and round-trip runs)",
]
ASSUME = [
    "the transport authenticates the sender (C16); HMAC-SHA256 tags of distinct (topic, id) pairs do not collide (makePRF is a parameter of the model, its values are supplied by the real function)",
    "every member's Membership is duplicate-free and contains the member itself (otherwise the confirmation channel, of capacity len(Membership)-1, can fill up: Out.blocked in the model)",
    "expectedMemberCount >= 1 (with 0 the code, and the model, can run the continuation with an empty list: Props/C07 expected_zero_observation); honest members of one session pass the same expected count",
    "fmt.Sprintf(\"%v\") on []uint16 is injective up to nil/empty (sampled against the real renderer on every run)",
    "liveness is partial: real time (the deadline), the ticker and the Go scheduler are outside the model; proved are the member-local progress facts and that honest confirmations always match in an all-honest run; "
    "completion before the deadline is observed on real runs with FIFO links (a reordering link can overwrite a member's final query with a stale announcement, after which nobody re-announces)",
]

def main():
    c = Check("C07")
    c.prove(gen=["stmts"])
    c.correspond("sync")
    return c.finish(
        rule="(render) 4000 pairs of views: %v rendering equal iff lists equal. (step) 120 (1500) histories on a real Member, 2-6 configured ids from a pool spanning 0..65535, 3 topics, 20-80 steps: registrations (incl. repeated), "
             "HandleMessage with valid messages of the three kinds and with another member's tag, arbitrary senders, the own identity, unknown tags, random bytes, dangling bytes, arbitrary type bytes; intersectedView, myMemberViewSorted, "
             "taking confirmations; full topic state compared after every step. (lockstep) 150 (2000) real Synchronize goroutines with expected 0..n+1, parked at every yield point: deliveries inside the window after each pass, between loop "
             "iterations and while waiting for confirmations, cancellation after a random number of events; every event compared with the model. (net) the recorded window-split history three times, then 70 (900) worlds of 2-6 members: "
             "all-honest with exactly the expected callers (must all complete, half of them with in-window deliveries), one caller too few (must all fail), and 1-2 corrupted members with four strategies (split views + confirm anything, "
             "echo, noise: foreign tags / other topics / replays / oversized views / outsiders, patient: confirm then change the story), FIFO or reordering links; monitors: validity, agreement, result/continuation consistency. "
             "Non-trivial = every compared line except snapshots, plus every distinct world.",
        trusted=TRUSTED, assumptions=ASSUME)
