from vlib import Check

TRUSTED = [
    "tie (T), added: the statement lists of the functions this property's model was transcribed from are regenerated from /repo on every run (Gen/Stmts.lean) and pinned against the committed transcription source by the kernel-decided theorem source_as_modelled; the step from statements to model is by reading and is what the differential runs check",
    "Lean 4.33.0 kernel; axioms of every theorem audited",
    "hand-written control-flow model Model/Ctl.lean of the built-in DKG KeyGen (three wait loops woken by OnMsg and the context monitor) and of the orchestrator's result channel; "
    "tied by fault-point enumeration on the real code (harness component faults), not step by step: real time and goroutine scheduling are outside the model",
    "Props/C11Dkg.lean: the same cancellation and panic-freedom facts on the data-level model Model/Dkg.lean (tables, validateCommitments, assembleThresholdPublicKey), which the lockstep component dkgstep compares with the real KeyGen goroutines step by step (VerifPark hook): "
    "after the context ended the next wake-up returns, a returned call is absorbing, and no event sequence whose messages are attributed to other members reaches a panic (run_no_panic_members); outsider_key_panics shows that hypothesis is needed and is what C03 outsiders_inert provides",
    "Props/C11Wake.lean: the gap between a waiter's test of the context and its Cond.Wait, at lock granularity: with the monitor's Signal under the lock no schedule loses the wake-up (locked_signal_never_lost), without it one does (unlocked_signal_lost_witness); "
    "tied by the pinned statements of monitorContextTimeout (lock; Signal; unlock) and by the cancel-at-park runs of dkgstep, which end the context inside that gap on the real code",
    "extractor 'blocking': census of select / channel / Wait constructs in the functions of a KeyGen/Sign call with their escape, regenerated from the Go AST",
]
ASSUME = [
    "real time, the Go scheduler, sync.Cond and the context package behave as documented (a Signal under the lock wakes the waiter; ctx.Done fires)",
    "tss-lib internals (the adapters' loops are in the census; the library's rounds are not modelled)",
    "margins: a call must return within its deadline + 3 s on a loaded 16-core sandbox; goroutine count must return to baseline + 40 within 6 s",
]

def main():
    c = Check("C11")
    c.prove(gen=["blocking", "stmts"], modules=["TSSVerif.Props.C11", "TSSVerif.Props.C11Dkg", "TSSVerif.Props.C11Wake"])
    c.correspond("faults")
    c.correspond("dkgstep")
    c.correspond("orch")
    return c.finish(
        rule="back-pressure: the real synchroniser answers a peer's query through a Send that blocks for ever; Sign and KeyGen must still return within 3 s of the end of their context. dkgstep cancel-at-park: in every second fault-free run of each backend the context ends inside the park hook (after the waiter's test, before Cond.Wait). faults: built-in backends wired directly (n=3,t=2; BLS quick, BLS+PS thorough): for every party P and every k=0..(messages P sends in a complete run) everything P sends after its k-th message is dropped, and every single message "
             "of the run is withheld once; the others' KeyGen runs under a 120 ms deadline (even k) or an explicit cancel (odd k). Full stack (real Scheme, disc, rbc on the in-process network, loud; silent in thorough): node 2 goes silent after "
             "its k-th outgoing message for ~25 values of k. Sign with 6 kinds of unusable stored share data per scheme must fail at once. Monitors: every call returns within deadline + margin, the process survives (a panic in any goroutine kills the "
             "harness and is reported), goroutines end. orch: the exit paths of C12 (preparation error propagated). Non-trivial = every fault point.",
        trusted=TRUSTED, assumptions=ASSUME)
