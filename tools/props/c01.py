from vlib import Check

TRUSTED = [
    "tie (T), added: the statement lists of the functions this property's model was transcribed from are regenerated from /repo on every run (Gen/Stmts.lean) and pinned against the committed transcription source by the kernel-decided theorem source_as_modelled; the step from statements to model is by reading and is what the differential runs check",
    "Lean 4.33.0 kernel; axioms of every theorem audited",
    "algebra (d): Model/PsAlgebra.lean blsVerify + C18's Lagrange theorems; tie (T): the arithmetic statements of localSign / localVerify / localAggregateSignatures / localAggregatePublicKeys / localCreatePublicKeys are regenerated and pinned (Props/C09 bls_equations_as_modelled), "
    "tie (D): C18's scalar-level differential runs and the subset-verification monitor of the full stack",
    "protocol (c): hand-written model Model/Dkg.lean of one party of the built-in DKG (OnMsg, the three wait loops, combineShares, commit / reveal, validateCommitments, the all-subsets check), tied by the harness component dkgstep: a real TBLS / TPS "
    "driven in lockstep through park hooks, every handed-over message and every run of the KeyGen goroutine compared with the model; the session model (Reach) assumes what C02/C03 prove about the broadcast layer",
    "barrier and channel (a), (b): the theorems of C07, C12, C14, C04, C02, C03, C06 (each with its own tie); their composition into one end-to-end statement is by reading, and observed on the real full stack (component fullstack)",
]
ASSUME = [
    "the curve library implements a bilinear group of prime order; SHA-256 commitments",
    "memberships in which node and party identifiers coincide (the property's own quantifier; other maps: C06); every second full-stack schedule draws the identifiers from the corners of the 16-bit range (0, 255/256, 32768, 65535 ...), the others use 1..n",
    "completion ('to completion', 'obtains a signature') is observed on real runs with generous deadlines, not proved: real time, the Go scheduler and eventual wake-ups are outside the model; links are FIFO (the bundled transport)",
    "orchestrated signing is exercised with the BLS partial signer made interactive by one point-to-point round (as every real multi-round protocol is); with the plain non-interactive signer a party can finish and remove its pre-signing synchroniser "
    "before a slower party's query arrives: known finding KF-C01-fastsigner, reproduced by a steered schedule on every run",
]

def main():
    c = Check("C01")
    c.prove(gen=["ps", "stmts"], modules=["TSSVerif.Props.C01", "TSSVerif.Props.C01Run"])
    c.correspond("fullstack")
    c.correspond("dkgstep")
    return c.finish(
        rule="(fullstack) n real threshold.Schemes (real synchroniser, real reliable broadcast, real msgbox, real backends) on an in-process network whose scheduler picks the next link at random (FIFO per link): BLS and PS, loud and silent mode, "
             "(n,t) in (2,2) (3,2) (4,3) [thorough: nine pairs up to (7,4)], 2 (8) schedules each: KeyGen must succeed everywhere with byte-identical public material; BLS: every subset of >= t parties x 2 digests aggregates to a signature that verifies; "
             "orchestrated Sign by t parties on a fresh topic must succeed at every participant and the partial signatures aggregate and verify; plus the steered fast-signer schedule (known finding). "
             "(dkgstep) 60 (900) lockstep runs of a real BLS / PS backend, n 2..5, every t: arbitrary delivery order, duplicates, substituted shares / commitments / keys, malformed and junk messages, withheld messages, cancellation; "
             "monitors: public material identical among completers, completers' shares sign under it. Non-trivial = every distinct configuration / compared line.",
        trusted=TRUSTED, assumptions=ASSUME)
