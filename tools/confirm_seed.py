#!/usr/bin/env python3
"""Development-time helper: confirm a seeded change produced by a sub-agent in its scratch worktree /tmp/seed/<name>
(demo fails with the change, passes without, existing tests of the touched modules pass with the change), then file it
under /verif/seeded/<name>/ (patch.diff, the demonstration, meta.json)."""
import json, os, shutil, subprocess, sys
name = sys.argv[1]
wt = f"/tmp/seed/{name}"
env = dict(os.environ, GOFLAGS="-mod=mod", GOPROXY="off", GOSUMDB="off", GOTOOLCHAIN="local")
meta = json.load(open(f"{wt}/seed_meta.json"))
def sh(cmd, cwd=wt, timeout=1500):
    p = subprocess.run(cmd, shell=True, cwd=cwd, env=env, capture_output=True, text=True, errors='replace', timeout=timeout)
    return p.returncode, (p.stdout + p.stderr)[-1500:]
demo = meta["demo_cmd"]
patch = open(f"{wt}/seed_patch.diff").read()
files = [l[6:] for l in patch.splitlines() if l.startswith("+++ b/")]
mods = set()
for f in files:
    d = os.path.dirname(f)
    m = "."
    for cand in ("mpc/bls", "mpc/ps", "mpc/binance/ecdsa", "mpc/binance/eddsa", "test"):
        if f.startswith(cand + "/"): m = cand
    mods.add(m)
# demo files = untracked files
rc, out = sh("git status --porcelain --untracked-files=all")
demos = [l[3:] for l in out.splitlines() if l.startswith("??") and not l[3:].startswith(("seed_patch", "seed_meta"))]
res = {"with_change_demo": None, "without_change_demo": None, "existing_tests_with_change": {}}
rc1, o1 = sh(demo); res["with_change_demo"] = "FAIL" if rc1 != 0 else "PASS"
rc, o = sh("git apply -R seed_patch.diff"); assert rc == 0, o
rc2, o2 = sh(demo); res["without_change_demo"] = "FAIL" if rc2 != 0 else "PASS"
rc, o = sh("git apply seed_patch.diff"); assert rc == 0, o
# existing tests with the change, demo files moved aside
os.makedirs("/tmp/seed/_aside", exist_ok=True)
for d in demos: shutil.move(f"{wt}/{d}", f"/tmp/seed/_aside/{os.path.basename(d)}")
for m in sorted(mods):
    rc3, o3 = sh("go build ./... && go test -count=1 ./...", cwd=os.path.join(wt, m))
    res["existing_tests_with_change"][m] = "PASS" if rc3 == 0 else "FAIL: " + o3[-300:]
for d in demos: shutil.move(f"/tmp/seed/_aside/{os.path.basename(d)}", f"{wt}/{d}")
ok = res["with_change_demo"] == "FAIL" and res["without_change_demo"] == "PASS" and all(v == "PASS" for v in res["existing_tests_with_change"].values())
print(name, json.dumps(res), "CONFIRMED" if ok else "NOT CONFIRMED")
if ok:
    dst = f"/verif/seeded/{name}"
    os.makedirs(dst, exist_ok=True)
    shutil.copy(f"{wt}/seed_patch.diff", f"{dst}/patch.diff")
    for d in demos:
        os.makedirs(os.path.dirname(f"{dst}/demo/{d}"), exist_ok=True)
        shutil.copy(f"{wt}/{d}", f"{dst}/demo/{d}")
    meta_out = {"property": meta["property"], "summary": meta.get("summary"), "needs": meta.get("needs"), "demo_cmd": demo,
                "demo_files": demos, "files_changed": files, "confirmed": res,
                "ran": ["demo with change (must fail)", "git apply -R; demo (must pass)", "go build ./... && go test -count=1 ./... in " + ", ".join(sorted(mods)) + " with the change and without the demo files"]}
    json.dump(meta_out, open(f"{dst}/meta.json", "w"), indent=1)
