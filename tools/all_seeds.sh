#!/bin/sh
# Development-time regression: apply every filed seeded change to /repo in turn, run the check(s) of its property
# (quick tier), undo it. One line per seed: caught with a concrete replay / caught without / missed.
# usage: tools/all_seeds.sh [seed-name...]      (never run while anything else uses /repo)
cd "$(dirname "$0")/.." || exit 2
export GOFLAGS=-mod=mod GOPROXY=off GOSUMDB=off GOTOOLCHAIN=local
names="$*"
[ -z "$names" ] && names=$(ls seeded | grep -E '^C[0-9]+[bcde]?$')
for n in $names; do
  id=$(echo "$n" | sed "s/[bcde]$//")
  if ! git -C /repo diff --quiet; then echo "/repo not clean"; exit 2; fi
  git -C /repo apply "$(pwd)/seeded/$n/patch.diff" || { echo "$n patch does not apply"; continue; }
  out=$(timeout 1500 ./check "$id" --tier quick 2>&1 | grep -E "^VIOLATION|OK:" | tail -1)
  git -C /repo checkout -- .
  case "$out" in
    *no-failing-input-found*) echo "$n  caught-without-input  | $out" ;;
    VIOLATION*) echo "$n  CAUGHT  | $out" ;;
    *) echo "$n  MISSED  | $out" ;;
  esac
done
# leave the generated files as they are on the unchanged tree
go/bin/extract -repo /repo -out lean/TSSVerif/Gen all >/dev/null
