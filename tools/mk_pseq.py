#!/usr/bin/env python3
"""Development-time helper: snapshot the regenerated arithmetic statements of the PS / BLS functions (Gen/Ps.lean) as the
committed expectation Model/PsEquations.lean. Re-run ONLY after reading the diff of Gen/Ps.lean against the equations
transcribed in Model/PsAlgebra.lean (and after a deliberate change of /repo, e.g. a fix: commit)."""
import re
src = open('/verif/lean/TSSVerif/Gen/Ps.lean').read()
body = src.replace('namespace TSSVerif.Gen.Ps', 'namespace TSSVerif.Model.PsEq').replace('end TSSVerif.Gen.Ps', 'end TSSVerif.Model.PsEq')
body = re.sub(r'^-- REGENERATED.*\n-- Arithmetic.*\n', '', body)
hdr = '''/-!
Committed expectation of `Gen/Ps.lean`: the arithmetic statements of the PS / BLS functions, in source order, from which
`Model/PsAlgebra.lean` was transcribed (one definition per function), and the aliasing census of the verifying functions.
`Props/C08.equations_as_modelled` asserts, on every run, that the regenerated lists equal these.
Written by tools/mk_pseq.py at development time; never at check time.
-/
'''
open('/verif/lean/TSSVerif/Model/PsEquations.lean', 'w').write(hdr + body)
names = re.findall(r'^def (\w+) : List String', body, re.M)
print(len(names), 'lists:', ' '.join(names))
