"""Shared machinery of the /verif checks: build, regenerate, prove, audit, run, diff, verdict, evidence.

Every check follows DESIGN.md section 2.4:
  regenerate Gen/*.lean from /repo  ->  lake build Props.<id> (+ driver)  ->  axiom audit
  ->  build harness from /repo with -tags verif  ->  run corpus + generated cases on the real code
  ->  direct property monitors on the implementation's behaviour
  ->  feed the same operations to the Lean driver and diff step by step
  ->  verdict, evidence/<id>.json
"""
import fcntl, hashlib, hmac, json, os, re, shutil, subprocess, sys, time

VERIF = os.path.dirname(os.path.dirname(os.path.abspath(__file__)))
REPO = os.environ.get("VERIF_REPO", "/repo")
LEAN = os.path.join(VERIF, "lean")
GO = os.path.join(VERIF, "go")
WORK = os.path.join(VERIF, ".work")
DRIVER = os.path.join(LEAN, ".lake", "build", "bin", "tssdriver")
HARNESS = os.path.join(GO, "bin", "harness")
EXTRACT = os.path.join(GO, "bin", "extract")

ALLOWED_AXIOMS = {"propext", "Classical.choice", "Quot.sound"}
FORBIDDEN = ["sorry", "admit", "native_decide", "bv_decide", "implemented_by", "unsafe ", "maxHeartbeats 0",
             "@[extern", "reduceBool", "ofReduceBool"]


def goenv():
    e = dict(os.environ)
    e.update({"GOFLAGS": "-mod=mod", "GOPROXY": "off", "GOSUMDB": "off", "GOTOOLCHAIN": "local",
              })
    return e


class Lock:
    """One build at a time in the shared lake / go output directories."""
    def __init__(self, name="build"):
        self.path = os.path.join(VERIF, ".lock")
        self.f = None
    def __enter__(self):
        self.f = open(self.path, "w")
        fcntl.flock(self.f, fcntl.LOCK_EX)
        return self
    def __exit__(self, *a):
        fcntl.flock(self.f, fcntl.LOCK_UN)
        self.f.close()


def run(cmd, cwd=None, env=None, timeout=None, stdin=None):
    p = subprocess.run(cmd, cwd=cwd, env=env, timeout=timeout, stdin=stdin,
                       stdout=subprocess.PIPE, stderr=subprocess.STDOUT, text=True, errors="replace")
    return p.returncode, p.stdout


# ------------------------------------------------------------------------------------------------
# build steps
# ------------------------------------------------------------------------------------------------

def build_go(tags="verif", race=False):
    """Build extractor and harness from /repo's current working tree."""
    os.makedirs(os.path.join(GO, "bin"), exist_ok=True)
    rc, out = run(["go", "build", "-o", EXTRACT, "./cmd/extract"], cwd=GO, env=goenv())
    if rc != 0:
        return False, "extractor build failed:\n" + out
    cmd = ["go", "build", "-tags", tags, "-o", HARNESS + ("-race" if race else "")]
    if race:
        cmd.append("-race")
    cmd.append("./cmd/harness")
    rc, out = run(cmd, cwd=GO, env=goenv())
    if rc != 0:
        return False, "harness build failed (does /repo still compile with -tags verif?):\n" + out
    return True, ""


def regenerate(which):
    """Delete and regenerate Gen/<X>.lean for the listed extractors. Returns (ok, log)."""
    if not which:
        return True, ""
    rc, out = run([EXTRACT, "-repo", REPO, "-out", os.path.join(LEAN, "TSSVerif", "Gen")] + list(which), env=goenv())
    return rc == 0, out


DRIVER_GENS = ["wire", "wiredisc", "classify", "adapter"]   # generated modules the compiled driver imports (through Model/*)


def gen_deps(modules):
    """Extractor names of the generated modules the given Lean modules import, transitively."""
    seen, todo = set(), list(modules)
    while todo:
        m = todo.pop()
        f = os.path.join(LEAN, m.replace(".", "/") + ".lean")
        if not os.path.exists(f):
            continue
        for i in re.findall(r"^import (TSSVerif[\w.]*)", open(f, encoding="utf-8").read(), flags=re.M):
            if i not in seen:
                seen.add(i)
                todo.append(i)
    return sorted(x.split(".")[-1].lower() for x in seen if ".Gen." in x)


def committed_gen(name):
    """The committed snapshot (translation of the pinned tree) of a generated module, or None."""
    rel = "lean/TSSVerif/Gen/" + {"boxconsts": "BoxConsts", "wiredisc": "WireDisc"}.get(name, name.capitalize()) + ".lean"
    rc, out = run(["git", "-C", VERIF, "show", "HEAD:" + rel])
    return (os.path.join(VERIF, rel), out) if rc == 0 and out.strip() else None


def lake_build(targets):
    rc, out = run(["lake", "build"] + list(targets), cwd=LEAN)
    errs = [l for l in out.splitlines() if l.startswith("error:")]
    return rc == 0, out, errs


def theorem_names(prop_file, namespace):
    """Names of all `theorem`s declared in a Props file (fully qualified)."""
    src = open(prop_file, encoding="utf-8").read()
    src = strip_comments(src)
    names = re.findall(r"^\s*(?:private\s+|protected\s+)?theorem\s+([^\s:({\[]+)", src, flags=re.M)
    return [namespace + "." + n for n in names]


def strip_comments(src):
    out, i, depth = [], 0, 0
    n = len(src)
    while i < n:
        if src.startswith("/-", i):
            depth += 1; i += 2; continue
        if depth > 0 and src.startswith("-/", i):
            depth -= 1; i += 2; continue
        if depth == 0 and src.startswith("--", i):
            j = src.find("\n", i)
            i = n if j < 0 else j
            continue
        if depth == 0:
            out.append(src[i])
        elif src[i] == "\n":
            out.append("\n")
        i += 1
    return "".join(out)


def forbidden_scan():
    """grep the whole Lean project for anything that would weaken the trusted base."""
    hits = []
    for root, _, files in os.walk(LEAN):
        if ".lake" in root:
            continue
        for fn in files:
            if not fn.endswith(".lean"):
                continue
            p = os.path.join(root, fn)
            src = strip_comments(open(p, encoding="utf-8").read())
            for ln, line in enumerate(src.splitlines(), 1):
                if re.match(r"^\s*axiom\s", line):
                    hits.append(f"{p}:{ln}: axiom")
                for tok in FORBIDDEN:
                    if re.search(r"(?<![A-Za-z0-9_.])" + re.escape(tok.strip()) + r"(?![A-Za-z0-9_])", line):
                        hits.append(f"{p}:{ln}: {tok.strip()}")
    return hits


def audit_axioms(pid, modules, names):
    """`#print axioms` for every property theorem; returns (ok, {name: [axioms]}, log)."""
    os.makedirs(WORK, exist_ok=True)
    f = os.path.join(WORK, f"Audit_{pid}.lean")
    with open(f, "w") as fh:
        for m in modules:
            fh.write(f"import {m}\n")
        for n in names:
            fh.write(f"#print axioms {n}\n")
    rc, out = run(["lake", "env", "lean", f], cwd=LEAN)
    res, cur = {}, None
    text = out.replace("\n  ", " ")
    for m in re.finditer(r"'([^']+)' (does not depend on any axioms|depends on axioms: \[([^\]]*)\])", text):
        axs = [] if m.group(3) is None else [a.strip() for a in m.group(3).replace("\n", " ").split(",") if a.strip()]
        res[m.group(1)] = axs
    ok = rc == 0 and all(n in res for n in names) and all(set(a) <= ALLOWED_AXIOMS for a in res.values())
    return ok, res, out


def leanchecker(modules):
    rc, out = run(["lake", "env", "leanchecker"] + list(modules), cwd=LEAN)
    return rc == 0, out


# ------------------------------------------------------------------------------------------------
# correspondence run
# ------------------------------------------------------------------------------------------------

def run_harness(component, seed, tier, workdir, extra_args=(), timeout=3600, binary=None):
    shutil.rmtree(workdir, ignore_errors=True)
    os.makedirs(workdir, exist_ok=True)
    env = goenv()
    env.setdefault("GOMEMLIMIT", "8GiB")
    try:
        rc, out = run([binary or HARNESS, "-dir", workdir, "-seed", str(seed), "-tier", tier] + list(extra_args) + [component],
                      env=env, timeout=timeout)
    except subprocess.TimeoutExpired as e:
        o = e.stdout if isinstance(e.stdout, str) else (e.stdout or b"").decode(errors="replace")
        return -9, f"harness component {component} did not finish within {timeout} s (the implementation blocks?)\n" + (o or "")[-3000:]
    return rc, out


def run_driver(workdir):
    with open(os.path.join(workdir, "ops.txt")) as fin, open(os.path.join(workdir, "model.txt"), "w") as fout:
        p = subprocess.run([DRIVER], stdin=fin, stdout=fout, stderr=subprocess.PIPE, text=True)
    return p.returncode, p.stderr


def canon_model(op, model_line):
    """Canonicalise a model answer where the implementation applies an external primitive that the
    model leaves as a parameter (SHA-256 / HMAC over bytes the model produced)."""
    if op.startswith("wire topicpre "):
        b = b"" if model_line == "-" else bytes.fromhex(model_line)
        return "sha256:" + hashlib.sha256(b).hexdigest()
    return model_line


def diff(workdir, canon=None, limit=20):
    """Line-by-line comparison of impl.txt and model.txt. Returns (n_ops, mismatches[list of dict])."""
    ops = open(os.path.join(workdir, "ops.txt")).read().split("\n")
    impl = open(os.path.join(workdir, "impl.txt")).read().split("\n")
    model = open(os.path.join(workdir, "model.txt")).read().split("\n")
    if ops and ops[-1] == "": ops.pop()
    if impl and impl[-1] == "": impl.pop()
    if model and model[-1] == "": model.pop()
    mism = []
    n = len(ops)
    if len(model) != n or len(impl) != n:
        mism.append({"line": min(len(model), len(impl)), "op": "(stream length)", "impl": f"{len(impl)} lines",
                     "model": f"{len(model)} lines for {n} operations"})
    for i in range(min(n, len(model), len(impl))):
        m = model[i]
        im = impl[i]
        if im.startswith("hmac:"):
            _, key, tag = im.split(":")
            b = b"" if m == "-" else bytes.fromhex(m)
            m = "hmac:" + key + ":" + hmac.new(bytes.fromhex(key), b, hashlib.sha256).hexdigest()
        elif canon:
            m = canon(ops[i], m)
        else:
            m = canon_model(ops[i], m)
        if m != im:
            if len(mism) < limit:
                mism.append({"line": i + 1, "op": ops[i], "impl": im, "model": m})
            else:
                mism.append(None)
    return n, mism


# ------------------------------------------------------------------------------------------------
# verdict, replay files, known findings, evidence
# ------------------------------------------------------------------------------------------------

def known_findings():
    p = os.path.join(VERIF, "known_findings.json")
    if not os.path.exists(p):
        return []
    return json.load(open(p)).get("findings", [])


def write_replay(pid, name, content):
    d = os.path.join(VERIF, "replays", pid)
    os.makedirs(d, exist_ok=True)
    p = os.path.join(d, name)
    with open(p, "w") as fh:
        if isinstance(content, str):
            fh.write(content)
        else:
            json.dump(content, fh, indent=1)
    return p


def write_evidence(pid, tier, seed, level, coverage, assumptions, wall, violations):
    os.makedirs(os.path.join(VERIF, "evidence"), exist_ok=True)
    ev = {"property_id": pid, "tier": tier, "seed": seed, "level": level, "coverage": coverage,
          "assumptions": assumptions, "wall_s": round(wall, 2), "violations": violations}
    with open(os.path.join(VERIF, "evidence", pid + ".json"), "w") as fh:
        json.dump(ev, fh, indent=1, ensure_ascii=False)


class Check:
    """One property check run. Collects obligations, correspondence results, monitor results."""

    def __init__(self, pid, level="proof"):
        self.pid = pid
        self.level = level
        self.tier = os.environ.get("VERIF_TIER", "quick")
        self.seed = int(os.environ.get("VERIF_SEED", "1"))
        self.t0 = time.time()
        self.violations = []          # (what, replay_path, found_input: bool)
        self.known_hits = []
        self.obligations = []         # theorem names
        self.discharged = []
        self.axioms = {}
        self.trusted = []
        self.assumptions = []
        self.cov = {"evaluations": 0, "distinct_nontrivial": 0, "samples": [], "histogram": {}}
        self.rule = ""
        self.notes = []
        self.proof_ok = True
        self.broken = []              # names of broken obligations / correspondences
        self.workdir = os.path.join(WORK, pid)

    def log(self, *a):
        print(f"[{self.pid}]", *a, flush=True)

    # -- proof side ----------------------------------------------------------------------------
    def prove(self, gen=(), modules=None, extra_targets=("tssdriver",)):
        """Regenerate, build the property's proof modules and the driver, audit axioms."""
        pid = self.pid
        modules = modules or [f"TSSVerif.Props.{pid}"]
        with Lock():
            ok, log = build_go()
            if not ok:
                self.log(log)
                self.broken.append("build: harness/extractor does not build from /repo")
                self.proof_ok = False
                return False
            # everything this property's modules import is regenerated (never a stale file of an earlier run on
            # another tree), and so is what the shared driver imports
            own = sorted(set(gen) | set(gen_deps(modules)))
            foreign = [g for g in DRIVER_GENS if g not in own] if extra_targets else []
            ok, log = regenerate(own)
            self.log(log.strip())
            if not ok:
                self.broken.append("extractor failed: " + log.strip()[-300:])
                self.proof_ok = False
            if foreign:
                regenerate(foreign)
            okb, out, errs = lake_build(list(modules) + list(extra_targets))
            if not okb and foreign:
                # a generated module that this property's model does not import may have stopped building (a change
                # in code another property models): the driver then uses the committed translation of it, so that this
                # property is decided on its own model and tie
                restored = []
                for g in foreign:
                    snap = committed_gen(g)
                    if snap and open(snap[0], encoding="utf-8").read() != snap[1]:
                        open(snap[0], "w", encoding="utf-8").write(snap[1])
                        restored.append(g)
                if restored:
                    okb2, out2, errs2 = lake_build(list(modules) + list(extra_targets))
                    if okb2:
                        okb, out, errs = okb2, out2, errs2
                        self.log("note: generated module(s) " + ", ".join(restored) + " (not imported by this property's model) "
                                 "do not build on this tree; the shared driver uses their committed translation")
                        self.notes.append("driver built with the committed translation of: " + ", ".join(restored))
        names = []
        for m in modules:
            f = os.path.join(LEAN, m.replace(".", "/") + ".lean")
            names += theorem_names(f, m)
        self.obligations = names
        if not okb:
            self.proof_ok = False
            for e in errs[:12]:
                self.log(e)
            self.broken.append("lake build failed: " + "; ".join(errs[:6]))
            # which theorems still check? try the audit anyway only if modules built
        hits = forbidden_scan()
        if hits:
            self.proof_ok = False
            self.broken.append("forbidden tokens: " + "; ".join(hits[:5]))
        if okb:
            oka, res, out = audit_axioms(pid, modules, names)
            self.axioms = res
            self.discharged = [n for n in names if n in res and set(res[n]) <= ALLOWED_AXIOMS]
            if not oka:
                self.proof_ok = False
                bad = [n for n in names if n not in self.discharged]
                self.broken.append("axiom audit failed for: " + ", ".join(bad[:8]))
            if self.tier == "thorough":
                okc, outc = leanchecker(modules)
                self.cov["leanchecker"] = "ok" if okc else "FAILED"
                if not okc:
                    self.proof_ok = False
                    self.broken.append("leanchecker rejected the compiled modules: " + outc[-300:])
        self.log(f"proof obligations: {len(self.discharged)}/{len(self.obligations)} discharged"
                 + ("" if self.proof_ok else "  (BROKEN: " + " | ".join(self.broken) + ")"))
        return self.proof_ok

    # -- correspondence side -------------------------------------------------------------------
    def correspond(self, component, seed=None, extra_args=(), canon=None, sub=None, timeout=None):
        """Run the harness component on the real code, the same operations on the Lean driver, diff.
        Returns stats dict (from the harness) or None if the harness could not run."""
        wd = os.path.join(self.workdir, sub or component)
        seed = self.seed if seed is None else seed
        if timeout is None:
            timeout = 900 if self.tier == "quick" else 7200
        rc, out = run_harness(component, seed, self.tier, wd, extra_args, timeout=timeout)
        if rc != 0:
            self.log(f"harness {component} exited {rc}:\n{out[-2000:]}")
            rp = write_replay(self.pid, f"harness_crash_{component}_{seed}.txt",
                              f"harness component {component} seed {seed} tier {self.tier} exited {rc}\n{out[-6000:]}")
            self.violations.append((f"the implementation crashed the harness process in component {component}", rp, True))
            return None
        stats = json.load(open(os.path.join(wd, "stats.json")))
        self.cov["evaluations"] += stats["ops"]
        self.cov["distinct_nontrivial"] += stats["distinct_nontrivial"]
        for k, v in stats["histogram"].items():
            self.cov["histogram"][f"{component}:{k}"] = self.cov["histogram"].get(f"{component}:{k}", 0) + v
        self.cov["samples"] += (stats.get("samples") or [])[:6]
        for k, v in stats.get("extra", {}).items():
            self.cov.setdefault("extra", {})[f"{component}:{k}"] = v
        # direct monitors on the implementation
        for mv in (stats.get("monitor_violations") or []):
            if mv["property"] != self.pid:
                # a monitor of another property fired in this run: decided by that property's check, noted here
                self.cov.setdefault("extra", {}).setdefault("other_property_monitors", []).append(f"{component}: {mv['property']}: {mv['what'][:160]}")
                self.log(f"note: component {component} also reported for {mv['property']}: {mv['what'][:160]}")
                continue
            self.monitor_violation(mv["what"], mv["replay"], component, seed)
        # model vs implementation
        if os.path.exists(DRIVER) and stats["ops"] > 0:
            rcd, err = run_driver(wd)
            n, mism = diff(wd, canon)
            real = [m for m in mism if m]
            self.cov["disagreements_checked"] = self.cov.get("disagreements_checked", 0) + n
            if rcd != 0 or mism:
                self.log(f"correspondence {component}: {len(mism)} mismatching lines of {n}")
                for m in real[:5]:
                    self.log("   ", json.dumps(m))
                rp = write_replay(self.pid, f"correspondence_{component}_{seed}.json",
                                  {"broken": f"correspondence model<->implementation, component {component}",
                                   "seed": seed, "tier": self.tier, "mismatches": real, "total_mismatches": len(mism),
                                   "driver_stderr": err[-2000:]})
                self.corr_broken = getattr(self, "corr_broken", []) + [(component, rp, real)]
        else:
            if stats["ops"] > 0:
                self.log("driver not available: correspondence not run (model does not build)")
        return stats

    def race(self, component, seed=None, timeout=None):
        """Build the harness with the race detector, run the component, turn every report into a violation."""
        ok, msg = build_go(race=True)
        if not ok:
            self.log("race build failed: " + msg[-500:])
            self.cov.setdefault("extra", {})["race_detector"] = "build failed"
            return None
        wd = os.path.join(self.workdir, component + "-race")
        seed = self.seed if seed is None else seed
        if timeout is None:
            timeout = 900 if self.tier == "quick" else 7200
        shutil.rmtree(wd, ignore_errors=True)
        os.makedirs(wd, exist_ok=True)
        env = goenv()
        env["GORACE"] = f"log_path={wd}/race halt_on_error=0"
        env.setdefault("GOMEMLIMIT", "8GiB")
        try:
            rc, out = run([HARNESS + "-race", "-dir", os.path.join(wd, "out"), "-seed", str(seed), "-tier", self.tier, component], env=env, timeout=timeout)
        except subprocess.TimeoutExpired:
            rc, out = -9, "timeout"
        reports = []
        for fn in sorted(os.listdir(wd)):
            if fn.startswith("race."):
                txt = open(os.path.join(wd, fn), errors="replace").read()
                reports += [b for b in txt.split("==================") if "DATA RACE" in b]
        seen = set()
        for b in reports:
            frames = [l.strip() for l in b.splitlines() if l.strip().startswith("github.com/IBM/TSS")]
            key = " <-> ".join(frames[:2])
            if key in seen:
                continue
            seen.add(key)
            self.monitor_violation("data race reported by the race detector: " + key, b.strip()[:6000], component, seed)
        self.cov.setdefault("extra", {})["race_detector"] = f"{len(reports)} reports, {len(seen)} distinct, exit {rc}"
        if rc != 0 and not reports:
            rp = write_replay(self.pid, f"race_run_{component}_{seed}.txt", f"race-instrumented harness exited {rc}\n{out[-4000:]}")
            self.violations.append((f"the race-instrumented run of component {component} did not complete (exit {rc})", rp, True))
        try:
            st = json.load(open(os.path.join(wd, "out", "stats.json")))
            self.cov["evaluations"] += st["ops"]
            self.cov["distinct_nontrivial"] += st["distinct_nontrivial"]
            for k, v in st["histogram"].items():
                self.cov["histogram"][f"{component}-race:{k}"] = v
            for mv in (st.get("monitor_violations") or []):
                if mv["property"] == self.pid:
                    self.monitor_violation(mv["what"], mv["replay"], component, seed)
        except Exception:
            pass
        return len(reports)

    def monitor_violation(self, what, replay, component="", seed=None):
        for kf in known_findings():
            if kf.get("property") == self.pid and kf.get("status", "open") == "open" and re.search(kf["match"], what + " " + replay):
                if kf["id"] not in [k["id"] for k in self.known_hits]:
                    self.known_hits.append(kf)
                return
        rp = write_replay(self.pid, f"violation_{len(self.violations)}.json",
                          {"property": self.pid, "what": what, "replay": replay, "component": component,
                           "seed": seed if seed is not None else self.seed, "tier": self.tier})
        self.violations.append((what, rp, True))

    # -- verdict -------------------------------------------------------------------------------
    def finish(self, rule, trusted, assumptions, checker_cmd=None, extra_cov=None):
        pid = self.pid
        found_concrete = any(v[2] for v in self.violations)
        if not self.proof_ok and not found_concrete:
            rp = write_replay(pid, "proof_obligation_broken.json",
                              {"property": pid, "broken": self.broken,
                               "note": "the proof obligations of this property no longer check against the current /repo; "
                                       "the search (direct monitors over the full correspondence workload) found no failing input"})
            self.violations.append(("proof obligation no longer checks: " + " | ".join(self.broken)[:300], rp, False))
        for (component, rp, real) in getattr(self, "corr_broken", []):
            if not found_concrete:
                self.violations.append((f"model and implementation disagree in component {component}", rp, False))
        cov = self.cov
        cov["rule"] = rule
        cov["obligations"] = len(self.obligations)
        cov["discharged"] = len(self.discharged)
        cov["checker_cmd"] = checker_cmd or f"cd /verif/lean && lake build TSSVerif.Props.{pid} && lake env lean <audit file with #print axioms for every theorem>"
        cov["trusted_base"] = trusted
        cov["theorems"] = {n: self.axioms.get(n, "NOT CHECKED") for n in self.obligations}
        cov["samples"] = cov["samples"][:12] or ["(no correspondence workload for this property)"]
        if extra_cov:
            cov.update(extra_cov)
        wall = time.time() - self.t0
        write_evidence(pid, self.tier, self.seed, self.level, cov, assumptions, wall, len(self.violations))
        for kf in self.known_hits:
            print(f"KNOWN-FINDING: property={pid} {kf['what']}", flush=True)
        if self.violations:
            for what, rp, found in self.violations[:5]:
                self.log("violation:", what)
            what, rp, found = sorted(self.violations, key=lambda v: not v[2])[0]
            tail = "" if found else " no-failing-input-found"
            print(f"VIOLATION property={pid} replay={rp}{tail}", flush=True)
            return 1
        self.log(f"OK: {len(self.discharged)}/{len(self.obligations)} obligations, {cov['evaluations']} evaluations, "
                 f"{cov['distinct_nontrivial']} distinct non-trivial, {wall:.1f}s")
        return 0
