#!/bin/sh
# usage: tools/try_seed.sh <patch.diff> <property id>...   — applies a seeded change to /repo, runs the checks, undoes it
set -u
patch="$1"; shift
cd /repo || exit 2
if ! git diff --quiet; then echo "/repo has uncommitted changes"; exit 2; fi
git apply "$patch" || { echo "patch does not apply"; exit 2; }
cd /verif
for id in "$@"; do
  echo "=== $id with $(basename $(dirname $patch))/$(basename $patch)"
  timeout 1500 ./check "$id" 2>&1 | grep -E "VIOLATION|KNOWN-FINDING|OK:|violation:|BROKEN" | cut -c1-400 | head -8
done
git -C /repo checkout -- . 
git -C /repo status --short | head -3
