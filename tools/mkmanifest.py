#!/usr/bin/env python3
"""Writes MANIFEST.json from the table below (kept in one place so it is always valid)."""
import json, os, subprocess
HERE = os.path.dirname(os.path.dirname(os.path.abspath(__file__)))

CHECKS = {
 "C13": dict(
   text="Lean 4 theorems over BitVec 16/8 and byte lists for every identifier, round, digest and view (no bound): encode/decode round trips, "
        "ack/payload disjointness, injectivity of the topic and PRF pre-images, decoders total. The integer expressions, guards and offsets the "
        "theorems are about are regenerated from the Go AST on every run; the list plumbing around them is tied by an exhaustive differential run "
        "(all 65 536 senders) against the real functions.",
   design="4/C13",
   note="Trusted: Lean kernel (axioms audited: propext, Classical.choice, Quot.sound at most), the 150-line Go-expression translator, harness + driver parsing. "
        "Modelled not verified: SHA-256/HMAC (injectivity of their inputs is proved instead), encoding/asn1 containers (exercised with real Marshal/Unmarshal).",
   technique="Lean 4 proof over regenerated BitVec expressions + exhaustive differential correspondence"),
}

RBC_NOTE = ("Trusted: Lean kernel (axioms audited), the hand-written receiver/dispatcher models (tied step-exactly to the real rbc.Receiver and the real Scheme.HandleMessage path by the harness), "
            "regenerated wire expressions, harness + driver parsing. Assumed: authenticated sources (C16), SHA-256 as parameter H (conclusions are modulo an explicit collision), "
            "one message at a time per instance (mutex), a shared deterministic classifier with 7-bit rounds.")
CHECKS["C02"] = dict(
   text="Lean 4 theorem `agreement` over a byte-level transition system: any number of members, any honest subset, corrupted members and outsiders may hand any bytes to any honest member "
        "at any time in any order; two honest broadcast-class hand-overs for the same sender and round carry equal payloads or an explicit hash collision. Proved by an inductive invariant "
        "(pinned digests, authenticated acknowledgements, counting lemma) for every N, every adversary, every schedule. The model is tied to the code by step-exact differential runs on real "
        "receivers and the real dispatcher, plus a direct cross-party monitor under a Byzantine strategy catalogue.",
   design="4/C02", note=RBC_NOTE, technique="Lean 4 inductive-invariant proof over a transition system + step-exact differential correspondence")
CHECKS["C03"] = dict(
   text="Lean 4 theorems over every input sequence of (authenticated source, bytes) to one honest receiver: broadcast-class hand-over only of a payload directly received from that participant "
        "(bcast_authentic), at most once per sender and round (bcast_at_most_once), never the placeholder, point-to-point hand-overs sound and verbatim in order, outsiders inert, no panic. "
        "Tied by step-exact differential runs and direct multiplicity monitors on the real code.",
   design="4/C03", note=RBC_NOTE, technique="Lean 4 proof by induction over arbitrary input sequences + step-exact differential correspondence")

CHECKS["C04"] = dict(
   text="Lean 4 theorems over the fault-free session as a transition system (any N >= 2, any number of concurrent senders, rounds and point-to-point messages, every delivery order, no FIFO): "
        "at quiescence every broadcast was handed over exactly once with its payload at every other member (quiescent_total), every point-to-point message exactly once at its addressee "
        "(p2p_exactly_once), nothing else is handed over (only_workload), nobody ever concludes equivocation (no_false_equivocation), and every schedule reaches quiescence within a computed bound "
        "(deliver_decreases / quiescence_reached). Inductive invariant with voucher tracking and a counting argument. Tie: step-exact differential runs on real receivers under biased and exhaustive "
        "schedules, quiescence monitor on the implementation; ClassifyMsg tables regenerated from source.",
   design="4/C04", note=RBC_NOTE, technique="Lean 4 inductive-invariant proof over a transition system + step-exact differential correspondence + regenerated tables")

CHECKS["C18"] = dict(
   text="Lean 4 + Mathlib theorems: Lagrange reconstruction at zero over every field for every node set and polynomial (reconstruct_eq), aggregation in the exponent over every module, on-polynomial keys accepted, "
        "a single off-polynomial key detected for every party (single_bad_key_detected), chooseKoutOfN = every k-subset exactly once for all n,k (choose_spec), and — for the executable model that the driver runs "
        "against the real sss.go with the real group order — exec_lagrange_is_lagrange and exec_reconstruct_correct for every prime modulus, coefficient list, n and duplicate-free point list. "
        "Tie: byte-exact differential runs on both copies, group-level monitors on the real curve.",
   design="4/C18",
   note="Trusted: Lean kernel + imported Mathlib modules (axioms audited), the executable model Model/Sss.lean (tied byte-exactly), harness. Assumed: primality of the BN254 group order, the curve library implements a module over that field.",
   technique="Lean 4 + Mathlib proof (Lagrange interpolation, ZMod p) incl. correctness of the executable model + byte-exact differential correspondence")

CHECKS["C10"] = dict(
   text="Lean 4 theorems `forall input, forall state, outcome != panic` over panic-aware models of the decoders, the whole MPC dispatch path of an open session, the built-in classifiers and the PS request/proof "
        "shape checks; a census of every partial operation (index, slice, assertion, panic, channel send) in the input-handling functions is regenerated from source on every run and must be covered by the "
        "accounted-for table (sites_covered, kernel-evaluated). Tie and search: structure-aware fuzzing of every entry point in every session state against the real code under a panic/hang guard, plus the "
        "model-vs-implementation runs of the codec, dispatcher, receiver and classifier models. Handlers of the synchroniser, message box and transport are covered by the fuzz runs here and by their own models in C07/C15/C16/C17.",
   design="4/C10",
   note="Trusted: Lean kernel, the panic-aware models, the site extractor + table, harness. Assumed: stdlib decoders and the curve library are total (exercised, not modelled); tss-lib internals; local preconditions are not peer input. "
        "Partial: adapters' channel send relies on the protocol loop draining it.",
   technique="Lean 4 totality proofs over panic-aware models + regenerated site census (kernel-decided) + structure-aware differential fuzzing")

CHECKS["C15"] = dict(
   text="Lean 4 theorems over every sequential history of arrivals, sends and clock ticks (any length, any limits): inductive invariant Wf (in-flight table = topics holding buffered messages of the sender; counters = buffered messages; buffered and started exclude each other), "
        "per-sender and per-topic bounds (limit+1, maxTopics+1), shedding changes nothing and cannot fail, release on start with in-order hand-over of exactly the buffered messages, throttling only by currently live topics (no stale throttling), "
        "and after any idle stretch longer than the expiry the next Send collects everything (GC keeps running, data for never-started topics is discarded). Tie: step-exact differential runs incl. table sizes against the real Box with an injected ticker; constants and comparison operators regenerated from source.",
   design="4/C15",
   note="Trusted: Lean kernel, Model/Box.lean (tied step-exactly incl. sizes), harness + snapshot hook, driver compaction. Assumed: sequential calls; 'expired' = collected by a sweep (lazy, at most once per expiry period, only during a Send).",
   technique="Lean 4 inductive-invariant proof over arbitrary operation histories + step-exact differential correspondence + regenerated constants")
CHECKS["C14"] = dict(
   text="Lean 4 theorems over every set of thread scripts and every schedule at lock granularity: conservation of messages (each is in exactly one place), no duplicates at any moment, exactly-once hand-over at quiescence for started topics, "
        "still buffered and not handed over for never-started topics. Tie: the real msg.Box under a controlled scheduler (yield hooks), all schedules of small scenarios, sampled schedules replayed step by step on the model. "
        "Per-sender order is refuted by a kernel-checked witness that the scheduler reproduces on the real code: known finding KF-C14-order (exactly that behaviour prints KNOWN-FINDING; any other order, loss or duplication is a violation).",
   design="4/C14",
   note="Trusted: Lean kernel, Model/BoxConc.lean, the yield hooks and the controlled scheduler. Assumed: Go mutex semantics; no clock ticks during the runs; limits not exceeded. Partial: per-sender order (known finding).",
   technique="Lean 4 proof of a conservation invariant over all interleavings + exhaustive controlled-scheduler correspondence on the real code")

CHECKS["C19"] = dict(
   text="Lean 4 theorems decided by kernel evaluation over tables regenerated on every run from the adapters and from the pinned tss-lib sources: receiver-side broadcast classification agrees with the library's routing flag for every message type, "
        "every library type is covered and nothing is stale, broadcast-class types of one phase get distinct rounds, all rounds fit 7 bits; plus sender_mismatch_dropped, signature_only_for_requested_digest and hashToInt_spec (all digests, all lengths). "
        "Tie: regenerated tables + complete EdDSA/ECDSA runs comparing ClassifyMsg with the routing flag of every captured message.",
   design="4/C19",
   note="Trusted: Lean kernel, the table extractor (adapters + module-cache tss-lib), harness. Assumed: URL naming scheme (cross-checked on captured messages); tss-lib rounds not modelled; the sender-mismatch branch is unreachable through the wire format.",
   technique="Lean 4 kernel-decided theorems over regenerated tables + differential runs of the real adapters")

CHECKS["C06"] = dict(
   text="Lean 4 theorems for every membership map (any finite node->party association, injective or not, any identifiers) and every agreed node list: Init receives the sorted, duplicate-free party identifiers of the agreed nodes; "
        "a session with two nodes of one party is refused (iff); every message is attributed to the party of its authenticated source; a point-to-point message goes to exactly the node that represents the addressed party in this session, "
        "to nobody for parties outside it; translation round-trips. Tie: differential runs of the real KeyGen and Sign paths under six families of maps.",
   design="4/C06",
   note="Trusted: Lean kernel, Model/Translate.lean (tied by real KeyGen/Sign runs with scripted synchroniser and backend), harness. Assumed: agreed list from C07, authenticated sources from C16.",
   technique="Lean 4 proof over arbitrary finite maps + differential correspondence through the real session set-up paths")

CHECKS["C07"] = dict(
   text="Lean 4 theorems over the synchroniser of one topic as a transition system in which honest members' handler steps interleave with the unserialised, non-atomic passes of their Synchronize goroutines and corrupted configured members send anything at any time: "
        "the list a member settles on is strictly sorted, contains it, has exactly the expected size, and consists of configured members it heard from on the topic (sync_valid); two honest members that settle and one of which lists the other settle on the identical list "
        "(sync_agree / continuations_agree); the continuation runs at most once, exactly when nil is returned, never after an error (result_consistent); the confirmation channel never fills up (responses_never_block). Liveness partial: in an all-honest run with no more callers "
        "than expected every listed member answers a query with exactly the queried list (honest_responses_confirm); completion before the deadline is observed on real runs. "
        "Tie: step-exact differential runs of a real Member, lockstep differential runs of real Synchronize goroutines through yield hooks, and monitored concurrent runs with scripted adversaries.",
   design="4/C07",
   note="Trusted: Lean kernel, Model/Disc.lean (tied three ways by the sync component), harness. Assumed: authenticated senders, HMAC tag collision freedom, well-formed Membership, expected >= 1. Two defects repaired (F25 two-pass read broke agreement; F26 a synchronisation expecting one member never completed).",
   technique="Lean 4 proof by inductive invariants over an interleaving transition system + step-exact and lockstep differential correspondence + monitored adversarial runs")

CHECKS["C16"] = dict(
   text="Lean 4 theorems for every environment (every behaviour of the TLS exporter, the ASN.1/PEM/x509 decoders, the signature scheme and the table): a connection is attributed to (domain, i) if and only if a well-formed handshake was received on it that carries "
        "this connection's exporter value, an identity that parses to a certificate with an ECDSA key, a signature by that key over the re-encoded handshake with the signature field blanked, and a table entry for sha256(domain || identity) (attributed_iff); the same bytes are refused on any "
        "connection with another exporter value (replay_rejected); no message appears on the channel without, and every message carries, that result (served_only_authenticated). The label 'registered under the claimed domain' is proved under a no-re-split hypothesis "
        "that the code's key does not meet: kernel-checked witness and known finding KF-C16-domain-boundary. Tie: decision sequence regenerated from the source + differential runs on real TLS connections with mutated handshakes.",
   design="4/C16",
   note="Trusted: Lean kernel, Model/Net.lean, the net extractor, harness. Assumed: ECDSA unforgeability, TLS exporter uniqueness, SHA-256, Go's crypto and encoding libraries. One defect repaired (F27: remote crash by a handshake that cannot be re-encoded), one recorded (KF-C16-domain-boundary).",
   technique="Lean 4 proof of the decision logic for all environments + regenerated decision sequence + differential correspondence on real TLS connections")

CHECKS["C17"] = dict(
   text="Lean 4 theorems, unbounded in sizes and lengths: every legal frame within the limit is written without panic and read back identically whatever follows (frame_roundtrip); any sequence of such frames written back to back is read as exactly that sequence (stream_roundtrip); "
        "a frame announcing more than the limit is refused from its header alone (oversize_refused); a read frame is a prefix decomposition of the stream (readMsg_sound); for every interleaving of sending goroutines, writers and connection failures: no panic (no_panic), "
        "frames accepted for a destination are taken by its writer in acceptance order (queue_fifo), and what a destination sees is independent of all events at other destinations (peer_failure_confined). "
        "Tie: constants, layout and panic sites regenerated from the source; real writer and reader compared byte for byte; four real parties on loopback TLS with concurrent senders and each peer in turn down, stalled or garbling.",
   design="4/C17",
   note="Trusted: Lean kernel, Model/Net.lean, the net extractor, harness. Not modelled: TCP, TLS records, real time. One defect repaired (F28: panic on a full queue). Observation: the caller still waits ten seconds per message for a dead destination.",
   technique="Lean 4 proof (round-trip by induction over frame sequences, interleaving-independent queue invariants) + regenerated constants + differential and live correspondence")

CHECKS["C08"] = dict(
   text="Lean 4 theorems over abstract groups (any scalar field, any three modules with a bilinear pairing), for every message vector of every length, all randomness, every hash value and challenge: the prover's request carries a proof that verifies (blind_proof_verifies); "
        "every signer's partial signature unblinds to (x_k + sum y_ki m_i) h, which passes UnBlind's pairing check under that signer's published key (unblind_eq, unblind_check_passes); for every polynomial sharing of degree < t and every set of at least t signers with "
        "distinct points the witnesses aggregate with the set's Lagrange coefficients to the witness of the threshold key (witnesses_aggregate); the proof of knowledge built from it verifies under the threshold key (pok_verifies); end to end threshold_flow_complete. "
        "Tie: the arithmetic statements of all 17 functions are regenerated from the source and pinned; the real flow runs for every listed (n,t), message vector and signer subset.",
   design="4/C08",
   note="Trusted: Lean kernel, Model/PsAlgebra.lean (statement lists pinned by extraction, transcription by reading), harness. Assumed: module/bilinearity structure of the curve library, a party's evaluation point is its position in the party list + 1 (DKG and, since fix F31, prover; identifiers arbitrary), sharing from the DKG (C05/C18).",
   technique="Lean 4 proof (module algebra, Lagrange interpolation over polynomials) + regenerated equation lists + end-to-end runs of the real scheme")

CHECKS["C09"] = dict(
   text="Lean 4 theorems, for every field, groups and pairing non-degenerate at g2: BLS verification is equivalent to sigma = x H(m) (bls_verify_iff), hence exactly which other message, key, altered share or swapped assignment still verifies (only the trivial ones: bls_wrong_message, "
        "bls_wrong_key, bls_altered_share with the non-zero Lagrange coefficient, bls_swapped_assignment); for PS every verification equation with an altered bound field (a_i, b_i, cm, nu, kappa) holds for at most one challenge, with the challenge fixed d, f, s, Gamma, Phi are "
        "determined (altered_*_rejected), the pairing equation pins the randomised witness (pok_witness_unique), the request is verified before a share is applied (request_checked_first); no verifying function mutates anything but fresh locals "
        "(no_aliased_mutation over the regenerated census). Unforgeability proper is a computational assumption and not claimed. Tie: regenerated equations, oracle inputs and census; 300+ alterations and repeated calls on the real code.",
   design="4/C09",
   note="Trusted: Lean kernel, Model/PsAlgebra.lean, the ps extractor, harness. One defect repaired (F29: verification modified the proof object). 'Only if produced by t genuine shares' is reduced to its algebraic content; the cryptographic assumption is stated.",
   technique="Lean 4 proof (uniqueness / rigidity of the verification relations) + regenerated aliasing census and oracle inputs + differential alteration runs on the real verifiers")

CHECKS["C01"] = dict(
   text="Decomposed into (a) barrier (C07, C12, C14), (b) channel (C04, C02, C03, C06), (c) protocol and (d) algebra. Lean 4 theorems here: (c) in every reachable state of a key-generation session - any interleaving, any behaviour of the others - honest parties that complete report identical "
        "public material (public_material_identical = C05 honest_completions_agree); (d) for every field, groups, bilinear pairing, dealing polynomials of degree < t and evaluation points: every set of at least t parties' public keys combine to the same key Q(0) g2 "
        "(honest_run_material, so the all-subsets check passes and everybody reports that key), every such set's partial signatures on every message verify under it (threshold_sig_correct), and the same follows from the all-subsets check alone for arbitrary sharings (checked_sets_sign). Tie: lockstep differential runs of the real DKG backends; the real full stack "
        "(synchroniser, broadcast, msgbox, backends) under random link schedules in loud and silent mode with subset-verification and orchestrated-signing monitors. Completion is observed, not proved. Known finding KF-C01-fastsigner (non-interactive signers).",
   design="4/C01",
   note="Trusted: Lean kernel, Model/Dkg.lean, Model/PsAlgebra.lean, harness; the end-to-end composition of (a)-(d) is by reading and by full-stack runs. Assumed: identity memberships, FIFO links, generous deadlines.",
   technique="Lean 4 proof (inductive invariant over session interleavings; Lagrange algebra over abstract groups) composed with the theorems of C02-C07, C12, C14 + lockstep and full-stack correspondence")

CHECKS["C05"] = dict(
   text="Lean 4 theorems over a key-generation session in which honest parties receive any shares from anybody (different per victim), any commitment and key per sender (the same bytes at every honest receiver: C02/C03), malformed, duplicated, withheld and out-of-phase messages, "
        "cancellation anywhere, in any interleaving: the table of a party only ever holds, per sender, the first value handed over (put_keeps), honest parties that complete report identical public material (honest_completions_agree), a party completes only if every recorded key "
        "hashes to the recorded commitment of its sender (completed_commitments_match), the own key is emitted only in a wake-up that finds commitments of n-1 distinct senders (reveal_needs_all_commitments, commit_senders_distinct); with Props/C01 checked_sets_sign (from the all-subsets check alone, by Neville's recursion): "
        "every set of at least t completers signs under the reported key. Tie: lockstep differential runs of real BLS and PS backends with an adversary catalogue.",
   design="4/C05",
   note="Trusted: Lean kernel, Model/Dkg.lean (tied by dkgstep), harness. Assumed: the broadcast layer's agreement / at-most-once (C02, C03), SHA-256 commitments. Defects repaired earlier and relied on: F11 (wait loops return the context error instead of revealing), F10/F12 (arity checks).",
   technique="Lean 4 proof (inductive invariants over adversarial session interleavings) + lockstep differential correspondence on the real backends")

CHECKS["C20"] = dict(
   text="Lean 4 theorem, generic: on a machine of threads taking and releasing mutexes and read-write mutexes in any order, two accesses to one location by different threads, one of them a write, are never both made holding the location's guard in a sufficient mode "
        "(discipline_implies_race_free, every number of threads, every schedule). Regenerated on every run: every field access of the shared types of threshold, mpc/bls, mpc/ps, msg, disc, rbc with the locks held at that point; a kernel-decided theorem asserts they are exactly "
        "the rows of the committed protection table, each guarded by its mutex or in a class that needs none, with its justification (tree_respects_discipline, classes_known). Partial by nature: the runtime is outside a theorem; the race detector runs the real stack under "
        "concurrent dispatch with early, duplicated and out-of-phase traffic on every run, as search and cross-check.",
   design="4/C20",
   note="Trusted: Lean kernel, the lock-set extractor, the protection map's justifications, the Go memory model. One defect repaired (F30: combineShares without the lock, reproduced by the race detector). Level: partial - a discipline proof plus detector runs, not a proof about the Go runtime.",
   technique="Lean 4 proof (lock-discipline invariant over all schedules) + regenerated access table pinned by a kernel-decided theorem + race-detector runs of the real stack")

CHECKS["C12"] = dict(
   text="Lean 4 theorems over the handler tables as a transition system with one action per lock acquisition: for every interleaving of a session's caller and callback threads (late callbacks included) the tables hold nothing under its keys afterwards (sign_no_residue, dkg_no_residue), "
        "re-admission, refusal of a duplicate session without any change, inertness of late traffic, and non-interference: any global interleaving of any number of sessions on disjoint keys projects onto each signing session's own run (noninterference, by a simulation argument). "
        "Tie: the real Scheme driven along every exit path with a gated synchroniser, table snapshots compared at every stable point. The constructed topic pair with colliding derived keys is a kernel-checked witness and known finding KF-C12-derived-topic.",
   design="4/C12",
   note="Trusted: Lean kernel, Model/Orch.lean (tied through the table snapshot hook), harness. Assumed: SHA-256 collision freedom for derived keys; silent-mode buffer residue noted as an observation. The fix of F09 itself was corrected once by this check (a refused Sign removed the running session's handlers).",
   technique="Lean 4 proof over a table transition system (case analysis of all thread interleavings + simulation for non-interference) + differential correspondence on the real orchestrator")

CHECKS["C11"] = dict(
   text="Lean 4 theorems over a control-flow model of the built-in DKG KeyGen for every event sequence (any arrivals in any order, any point of silence of any peer, wake-ups and the end of the context anywhere): never a panic, after cancellation the next wake-up returns "
        "and the call stays returned (cancel_returns, for all prefixes and suffixes), the result is an error unless everything had arrived; the orchestrator's result channel receives at most one value (never blocks a sender); every blocking construct in the functions of a "
        "KeyGen/Sign call has an escape (census regenerated from source, kernel-decided). Tie: fault-point enumeration on the real backends and the real full stack (every peer x every k, every withheld message), unusable share data. "
        "Partial: real time, the Go runtime and tss-lib are outside the model.",
   design="4/C11",
   note="Trusted: Lean kernel, Model/Ctl.lean (tied by fault enumeration, not step-exact), the blocking-construct extractor, harness. Assumed: Go runtime semantics (Cond, context), generous timing margins; tss-lib internals.",
   technique="Lean 4 proof over a control-flow state machine for all event sequences + regenerated blocking census + fault-point enumeration on the real code")

NOT_YET = {}

def main():
    ids = [json.loads(l)["id"] for l in open(os.path.join(HERE, "properties.jsonl"))]
    hooks_commits = subprocess.run(["git", "-C", "/repo", "log", "--format=%H %s"], capture_output=True, text=True).stdout.splitlines()
    hook_shas = [l.split()[0] for l in hooks_commits if " verif hooks:" in l or l.split(" ", 1)[1].startswith("verif hooks")]
    checks, na = [], []
    for pid in ids:
        if pid in CHECKS:
            c = CHECKS[pid]
            checks.append({
                "property_id": pid,
                "quick_cmd": f"./check {pid} --tier quick",
                "thorough_cmd": f"./check {pid} --tier thorough",
                "evidence_file": f"/verif/evidence/{pid}.json",
                "replay_cmd_template": f"./check {pid} --replay {{path}}",
                "engine": "lean4+differential",
                "level_claimed": {"category": c.get("category", "proof"), "text": c["text"], "design_ref": c["design"]},
                "level_note": c["note"],
                "technique": c["technique"],
            })
        else:
            na.append({"property_id": pid, "reason": NOT_YET.get(pid, "not claimed yet: model, theorems and correspondence harness for this property are still being built (see DESIGN.md section 4 for the plan); nothing is asserted about it")})
    m = {
        "version": 1,
        "setup_cmd": "./setup.sh",
        "hooks": {
            "guard": "verif",
            "enable": "go build -tags verif (the harness module /verif/go replaces github.com/IBM/TSS and its sub-modules by /repo)",
            "baseline_off_cmd": "cd /repo && for m in . mpc/bls mpc/ps mpc/binance/ecdsa mpc/binance/eddsa test; do (cd $m && GOFLAGS=-mod=mod GOPROXY=off GOSUMDB=off go test -vet=off -count=1 -timeout 25m ./...) || exit 1; done",
            "source_commits": hook_shas,
            "add_only": True,
        },
        "engines": [
            {"name": "lean4+differential", "path": "/verif/lean, /verif/go, /verif/tools",
             "serves_properties": sorted(CHECKS.keys()),
             "kind_free_text": "Lean 4 model + theorems (lake project TSSVerif, core-only compiled driver), Go extractors regenerating Lean definitions from /repo, Go harness running the real code for step-by-step differential correspondence and direct property monitors, Python orchestration"},
        ],
        "checks": checks,
        "not_applicable": na,
        "notes": "See DESIGN.md. Known findings / fixed defects: known_findings.json.",
    }
    with open(os.path.join(HERE, "MANIFEST.json"), "w") as fh:
        json.dump(m, fh, indent=1)
    print("wrote MANIFEST.json:", len(checks), "checks,", len(na), "not claimed")

if __name__ == "__main__":
    main()
