#!/usr/bin/env python3
"""Development-time helper: snapshot the regenerated statement lists (Gen/Stmts.lean) as the committed expectation
Model/StmtsExpected.lean. Re-run ONLY after reading the diff of Gen/Stmts.lean against the models that were transcribed
from these functions (and after a deliberate change of /repo, e.g. a fix: commit)."""
import re
src = open('/verif/lean/TSSVerif/Gen/Stmts.lean').read()
body = src.replace('namespace TSSVerif.Gen.Stmts', 'namespace TSSVerif.Model.StmtsExpected').replace('end TSSVerif.Gen.Stmts', 'end TSSVerif.Model.StmtsExpected')
body = re.sub(r'^-- REGENERATED.*\n-- Statement lists.*\n', '', body)
hdr = '''/-!
Committed expectation of `Gen/Stmts.lean`: the statements, in source order, of the functions the hand-written models
(`Model/Disc`, `Rbc`, `Dispatch`, `Dkg`, `Ctl`, `Box`, `BoxConc`, `Translate`, `Orch`) were transcribed from. The `source_as_modelled`
theorem of each property asserts, on every run, that the regenerated lists of its group equal these.
Written by tools/mk_stmts.py at development time; never at check time.
-/
'''
open('/verif/lean/TSSVerif/Model/StmtsExpected.lean', 'w').write(hdr + body)
print(len(re.findall(r'^def \w+ : List String', body, re.M)), 'functions;', re.findall(r'^def (\w+) : List \(List String\)', body, re.M))
