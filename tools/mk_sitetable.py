#!/usr/bin/env python3
"""Development-time helper (NOT run by the checks): rewrites lean/TSSVerif/Model/SiteTable.lean, the hand-maintained
table that accounts for every partial operation of the input-handling functions, from the rules below.
A site of the regenerated census (Gen/Sites.lean) that no rule accounts for is left out of the table, which makes
theorem `sites_covered` (Props/C10.lean) fail — on purpose."""
import os, re, sys
HERE = os.path.dirname(os.path.dirname(os.path.abspath(__file__)))

RULES = [
 (r"\|index\|[^|]*\[(from|msg\.Source|st|ack|lookupKey|msgType|msg\.TypeUrl|uint16\(p\)|string\([^)]*\))\](\[[^|]*\])?\|", "map-access",
  "read or write of a Go map that is created before the object becomes reachable (constructor, Init, initIfNeeded, setup under sync.Once, package-level literal); map reads of absent keys yield the zero value"),
 (r"\|index\|r\.reception\[ack\]\.idSet\[from\]\|", "map-access", "the entry and its idSet are created two statements earlier in the same critical section"),
 (r"\|index\|(\w+\.)?(\w+)\[i\]\|for i < len\((\w+\.)?\2\)", "loop-bounded", "index below the loop bound len() of the same slice"),
 (r"\|index\|bs\.[ab]\[i\]\|for i < len\(rbs\.[AB]\)", "loop-bounded", "bs.a / bs.b are made with len(rbs.A) / len(rbs.B) just before the loop"),
 (r"\|index\|ψ\.x\[i\]\|for i < len\(rpscf\.X\)", "loop-bounded", "ψ.x is made with len(rpscf.X) just before the loop"),
 (r"BlindCorrectFormProof\.Verify\|index\|(ξ\.[xydf]|a|b|gs)\[i\]\|for i < n", "length-guard", "Verify first rejects unless |x|=|y|=|d|=|f|=|a|=|b|=n and |gs|>=n (Model/PsShape.lean: sign_never_panics)"),
 (r"randomOracleForBlindingProof\|index\|(d|f|a|b|gs)\[i\]\|for i < n", "length-guard", "only called from Verify after the length guard (and from the prover on lists it built with length n)"),
 (r"SignBlindSignature\|index\|pp\.gs\[len\(pp\.gs\)-1\]", "precondition", "pp comes from Setup(messageLength) with messageLength+1 >= 1 generators: local configuration, not peer input"),
 (r"SignBlindSignature\|index\|(σ\.[ab]|sk\.ys)\[i\]\|for i < len\(pp\.gs\)", "length-guard", "reached only after ξ.Verify accepted, which requires |a|=|b|=len(pp.gs); sk.ys has pp.n entries (own DKG output / checked stored data)"),
 (r"SigPoK\.fromBytes\|index\|rspok\.Data\[[0-4]\]", "length-guard", "fromBytes rejects unless exactly five elements were decoded"),
 (r"checkcommitmentForm\|index\|(Y|ψ\.x)\[i\]\|for i < len\(ψ\.x\)", "length-guard", "ψ.Verify rejects proofs with more responses than the key has components before calling checkcommitmentForm"),
 (r"(ClassifyMsg|OnMsg)\|index\|msgBytes\[0\]", "length-guard", "preceded by the emptiness test (Gen/Classify.lean: EmptyRejected; Props/C04 builtin_classify_never_panics)"),
 (r"OnMsg\|slice\|msgBytes\[1:\]", "length-guard", "msgBytes is non-empty here"),
 (r"\|slice\|expectedCommitment\[:\]", "total", "full slice of an array"),
 (r"rbcEncoding\.Ack\|(index|slice)\|r\[", "length-guard", "Gen/Wire.lean guards; Props/C13 decodeAck_never_panics"),
 (r"rbcEncoding\.Payload\|slice\|r\[1:\]", "length-guard", "only reached when Ack() returned no error and no digest, i.e. len(r) >= 1 (Model/Dispatch.lean parse)"),
 (r"decodeTagAndMembershipList\|(index|slice)\|msg\[", "length-guard", "Gen/Wire.lean guards; Props/C13 decodeView_never_panics"),
 (r"\|(prefix|topicPrefix)\|slice\|", "length-guard", "guarded by the length comparison in the same function"),
 (r"threshold\.go\|Scheme\.runDKG\|slice\|\[\]byte\(digest\)\[:8\]", "internal", "digest is the SHA-256 the dispatcher computed (32 bytes): Model/Dispatch.lean parse, d = H p"),
 (r"\|assert\|m\.\(\*rbcMsg\)", "invariant", "the receiver forwards only messages it was handed by this dispatcher (all *rbcMsg) and never the nil placeholder (Props/C03 never_placeholder)"),
 (r"disc/discovery\.go\|[^|]*\|assert\|", "invariant", "sync.Map values are stored with exactly this type by the same package"),
 (r"Member\.HandleMessage\|panic\|", "unreachable", "decode returns only types 1..3 (Props/C13 view decoding; Model/Disc handler)"),
 (r"Member\.handleResponse\|send\|", "capacity", "at most one send per authenticated peer, capacity len(Membership)-1 (Props/C07 responses_never_block)"),
 (r"Member\.handleMembershipMessage\|send\|", "non-blocking", "inside select with default"),
 (r"party\.OnMsg\|send\|p\.in <- msg", "capacity", "buffered channel of 1000 drained by the KeyGen/Sign loop; partial: relies on that loop running"),
 (r"Receiver\.Receive\|panic\|", "precondition", "from == SelfID: the transport never attributes a message to the local node (modelled: Out.panic only in that case, Props/C03 never_panics)"),
 (r"Scheme\.(runDKG|prepareSigning)\|panic\|", "invariant", "second registration for a live topic: excluded by the duplicate-session refusal (Props/C12)"),
 (r"Scheme\.runDKG\|send\|resultChan", "capacity", "resultChan has capacity 1 and every path sends at most once (Props/C11)"),
 (r"handleConn\|send\|inMsgs", "blocking-by-design", "unbuffered hand-off to the application; back-pressure on one connection only"),
 (r"readMsg\|(index|slice)\|typeAndLengthBuff", "total", "buffer of constant size 5 filled by io.ReadFull"),
 (r"extractTLSBinding\|assert\|conn\.\(\*tls\.Conn\)", "precondition", "the listener is a tls.Listener; local configuration"),
 (r"extractTLSBinding\|panic\|", "precondition", "ExportKeyingMaterial fails only before the handshake completed or with renegotiation enabled; both excluded by the local TLS configuration"),
]

def main():
    gen = open(os.path.join(HERE, "lean/TSSVerif/Gen/Sites.lean"), encoding="utf-8").read()
    sites = re.findall(r'^  "(.*)",?$', gen, flags=re.M)
    rows, missing = [], []
    for s in sites:
        plain = s.replace('\\"', '"')
        for rx, cat, why in RULES:
            if re.search(rx, plain):
                rows.append((s, cat, why)); break
        else:
            missing.append(s)
    out = ["/-!", "Hand-maintained table accounting for every partial operation (index, slice, unchecked type assertion,",
           "explicit panic, channel send) in the functions that handle input from peers and clients: for each",
           "site of the census, the guard or invariant that makes it safe. Written with tools/mk_sitetable.py at",
           "development time; the checks never rewrite it. `Props/C10.lean` proves that the census regenerated",
           "from the current source contains no site that is missing here.", "-/",
           "namespace TSSVerif.Model.SiteTable", "",
           "/-- (site, category, why it cannot panic or block) -/",
           "def accounted : List (String × String × String) := ["]
    for i, (s, cat, why) in enumerate(rows):
        sep = "," if i < len(rows) - 1 else ""
        out.append(f'  ("{s}", "{cat}", "{why}"){sep}')
    out += ["]", "", "end TSSVerif.Model.SiteTable", ""]
    open(os.path.join(HERE, "lean/TSSVerif/Model/SiteTable.lean"), "w", encoding="utf-8").write("\n".join(out))
    print(len(rows), "sites accounted;", len(missing), "not accounted")
    for m in missing:
        print("  MISSING:", m)

if __name__ == "__main__":
    main()
