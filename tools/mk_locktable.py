#!/usr/bin/env python3
"""Development-time helper: classify every regenerated field access (Gen/Locks.lean) under the protection map below and
write the committed table Model/LockTable.lean (row, class, justification). A row that fits no rule is printed as
UNACCOUNTED and left out, so that Props/C20 tree_respects_discipline fails until it is repaired in /repo, or a rule
with a justification is added here. Run ONLY at development time, after reading the diff of Gen/Locks.lean."""
import re, sys
rows = re.findall(r'^  "(.*?)",?$', open('/verif/lean/TSSVerif/Gen/Locks.lean').read(), re.M)

# field -> mutex that guards it (reads need it shared or exclusive, writes exclusive)
GUARD = {}
for f in ("shares", "commitments", "publicKeysOfParties"):
    GUARD["TBLS." + f] = "TBLS.lock"
for f in ("shares", "commitments", "publicKeysOfParties", "sharesProcessed"):
    GUARD["TPS." + f] = "TPS.lock"
for f in ("syncsInProgress", "rbcInProgress", "messageClassifiers", "dkgRunning"):
    GUARD["Scheme." + f] = "Scheme.lock"
for f in ("pendingMessages", "startedSending", "totalInFlightTopicsBySender"):
    GUARD["Box." + f] = "Box.lock"
for f in ("lastUsedEpoch", "messageCountPerSender", "messages"):
    GUARD["storedMessages." + f] = "storedMessages.lock"
GUARD["threadSafeRBC.h"] = "threadSafeRBC.lock"
GUARD["threadSafeSync.Synchronizer"] = "threadSafeSync.lock"

# functions that run before the object is reachable by another goroutine
INIT = {"TBLS.Init": "the orchestrator calls Init before it registers the session's broadcast instance and classifier (F07), and no message is dispatched to a backend that is not registered",
        "TPS.Init": "as TBLS.Init",
        "Scheme.setup": "runs once under setupOnce (sync.Once) before any table is used; sync.Once publishes its effects",
        "Box.initialize·func": "the body of initOnce.Do: runs once before any other access; sync.Once publishes its effects"}
# configuration: assigned by the application before the object is handed to the library, never written by the library
CONFIG = {"TBLS": {"Logger", "Party"}, "TPS": {"Logger", "Party", "Curve", "MessageLength"},
          "Scheme": {"Logger", "Membership", "SelfID", "Send", "KeyGenFactory", "SignerFactory", "Threshold", "setupOnce"},
          "Box": {"ForwardSend", "GCExpire", "GCSweep", "Logger", "MaxInFlightTopicsBySender", "MessageHandler", "NewTicker", "init"},
          "Member": {"Broadcast", "ID", "Logger", "Membership", "Send"},
          "Receiver": {"BroadcastAck", "ForwardToBackend", "Logger", "N", "SelfID"},
          "SilentSynchronizer": {"PickMembers"}, "storedMessages": {"logger"}, "membership": {"uID2PID", "universalIdentifiers"}}
# written in an INIT function only, read-only afterwards
FROZEN_AFTER_INIT = {"TBLS.id", "TBLS.init", "TBLS.parties", "TBLS.sendMsg", "TBLS.threshold",
                     "TPS.id", "TPS.init", "TPS.parties", "TPS.sendMsg", "TPS.threshold", "Scheme.RBF", "Scheme.SyncFactory"}
SYNCMAP = {"Member.tagsToIDsAndTopics", "Member.topicsToMemberViews", "SilentSynchronizer.startedSynchronizations"}
ATOMIC = {"Box.currentGCEpochNum", "Box.lastGC"}
# accessed only by the goroutine of the API call that owns the object at that time
CONFINED = {
    "TBLS.sk": "written by the KeyGen goroutine (shareDistribution before anything is awaited, combineShares under the lock) and by SetShareData, read by Sign: the API sequences KeyGen / SetShareData before Sign on one object; OnMsg never touches it",
    "TBLS.sd": "KeyGen / SetShareData / ThresholdPK on the calling goroutine; OnMsg never touches it",
    "TPS.sk": "as TBLS.sk", "TPS.storedData": "as TBLS.sd",
    "TPS.pp": "set in Init; Sign passes its address to SignBlindSignature, which only reads it",
    "Scheme.StoredData": "set by SetStoredData before signing sessions start (API contract), read when a session is prepared",
    "Box.stopClock": "startClock runs once from initialize (sync.Once); Stop is the owner's call after use",
}
EXTERNAL = {"Receiver.equivocationDetected", "Receiver.receivedRoundFromSender", "Receiver.reception"}

out, bad = [], []
for r in rows:
    f, fld, rw, fn, locks = r.split("|")
    ty, name = fld.split(".")
    held = set(locks.split(",")) if locks else set()
    base_fn = fn
    cls = why = None
    if fn in INIT or any(fn.startswith(i + "·") for i in INIT if i != "Box.initialize·func"):
        k = fn if fn in INIT else [i for i in INIT if fn.startswith(i + "·")][0]
        cls, why = "init-phase", INIT[k]
    elif fld in GUARD:
        g = GUARD[fld]
        if g in held or (rw == "R" and (g + "(r)") in held):
            cls, why = "guarded", f"under {g}" + (" (shared)" if g not in held else "")
        elif fld in ("TBLS.publicKeysOfParties", "TPS.publicKeysOfParties") and rw == "R" and re.search(r"\.(flattenPublicKeys|assembleThresholdPublicKey)", fn):
            cls, why = "frozen-complete", ("read after waitForDeCommitmentDistribution saw all n keys under the lock: OnMsg stores a key only for a sender that has none (first value wins), "
                                            "every member has one, and the orchestrator forwards members' traffic only (C03 outsiders_inert), so OnMsg only reads the table from then on")
        elif fld == "TPS.publicKeysOfParties" and fn == "TPS.SetShareData":
            cls, why = "api-sequenced", "SetShareData prepares a signer object; no KeyGen runs on it, OnMsg of a signer never touches the key table"
    elif name in CONFIG.get(ty, ()):
        if rw == "R":
            cls, why = "configuration", "assigned by the application before the object is shared; the library only reads it"
    elif fld in FROZEN_AFTER_INIT:
        if rw == "R":
            cls, why = "frozen-after-init", "written in the init phase only (see init-phase rows), read-only afterwards"
    elif fld in SYNCMAP:
        cls, why = "sync.Map", "the field is a sync.Map (or a pointer to one) used through its methods; the field itself is never reassigned"
    elif fld in ATOMIC:
        cls, why = "atomic", "accessed through sync/atomic only (the address is taken for atomic.Load/Store/Add)"
    elif fld in CONFINED:
        cls, why = "confined", CONFINED[fld]
    elif fld in EXTERNAL:
        cls, why = "externally-serialised", "every Receiver is wrapped in threadSafeRBC by Scheme.setup's RBF; Receive runs under threadSafeRBC.lock (see the guarded row threadSafeRBC.h)"
    if cls is None:
        bad.append(r)
    else:
        out.append((r, cls, why))

def q(s): return '"' + s.replace("\\", "\\\\").replace('"', '\\"') + '"'
with open('/verif/lean/TSSVerif/Model/LockTable.lean', 'w') as fo:
    fo.write('''/-!
Committed protection table for C20: every field access of the shared types (as regenerated into `Gen/Locks.lean`)
with the class that makes it race-free and the justification. Written by tools/mk_locktable.py at development time from
the protection map in that script; never at check time. `Props/C20.tree_respects_discipline` asserts on every run that
each regenerated access is one of these rows.
Classes: guarded (the field's mutex is held, shared for reads) | init-phase | configuration | frozen-after-init |
frozen-complete | sync.Map | atomic | confined | api-sequenced | externally-serialised.
-/
namespace TSSVerif.Model.LockTable

def rows : List (String × String × String) := [
''')
    for i, (r, c, w) in enumerate(out):
        fo.write(f"  ({q(r)}, {q(c)}, {q(w)})" + (",\n" if i < len(out) - 1 else "\n"))
    fo.write("]\n\nend TSSVerif.Model.LockTable\n")
print(len(out), "rows accounted;", len(bad), "UNACCOUNTED")
for b in bad: print("  UNACCOUNTED:", b)
import collections
print(collections.Counter(c for _, c, _ in out))
