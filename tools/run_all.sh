#!/bin/sh
# usage: tools/run_all.sh [tier] [seed]  — runs every registered check on the current tree, one line per check
tier="${1:-quick}"; seed="${2:-1}"
cd "$(dirname "$0")/.." || exit 2
export GOFLAGS=-mod=mod GOPROXY=off GOSUMDB=off GOTOOLCHAIN=local VERIF_SEED="$seed"
for id in C01 C02 C03 C04 C05 C06 C07 C08 C09 C10 C11 C12 C13 C14 C15 C16 C17 C18 C19 C20; do
  t0=$(date +%s)
  ./check "$id" --tier "$tier" > /tmp/runall_${tier}_${seed}_$id.log 2>&1; rc=$?
  t1=$(date +%s)
  echo "$id rc=$rc $((t1-t0))s $(grep -c KNOWN-FINDING /tmp/runall_${tier}_${seed}_$id.log) known | $(grep -E 'VIOLATION|OK:' /tmp/runall_${tier}_${seed}_$id.log | tail -1 | cut -c1-160)"
done
